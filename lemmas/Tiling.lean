import Mathlib.Data.List.Basic
import Mathlib.Tactic

/-!
R-WALK meta-lemma (C15): for weights `w` and a draw `r ∈ [1, Σw]` the cumulative walk selects index `j` exactly when
`P_j < r ≤ P_j + w_j` (`P_j` the prefix sum), so the draws selecting `j` form an interval of exactly `w_j` values and an
entry of weight 0 is never selected.
-/

/-- the walk: subtract weights until the remainder is `≤ 0` -/
def sel : List ℕ → ℕ → ℕ
  | [], _ => 0
  | a :: t, r => if r ≤ a then 0 else 1 + sel t (r - a)

theorem sel_spec : ∀ (w : List ℕ) (r j : ℕ), 1 ≤ r → r ≤ w.sum → j < w.length →
    (sel w r = j ↔ (w.take j).sum < r ∧ r ≤ (w.take j).sum + w.getD j 0) := by
  intro w
  induction w with
  | nil => intro r j _ _ hj; simp at hj
  | cons a t ih =>
    intro r j h1 h2 hj
    cases j with
    | zero =>
      simp only [sel, List.take_zero, List.sum_nil, List.getD_cons_zero, zero_add]
      constructor
      · intro h
        by_cases hra : r ≤ a
        · exact ⟨by omega, hra⟩
        · simp [hra] at h
      · intro h
        simp [h.2]
    | succ k =>
      simp only [sel, List.take_succ_cons, List.sum_cons, List.getD_cons_succ]
      have hk : k < t.length := by simpa using hj
      by_cases hra : r ≤ a
      · simp only [hra, if_true]
        constructor
        · intro h; omega
        · intro h; omega
      · simp only [hra, if_false]
        have h1' : 1 ≤ r - a := by omega
        have h2' : r - a ≤ t.sum := by simp [List.sum_cons] at h2; omega
        have := ih (r - a) k h1' h2' hk
        constructor
        · intro h
          have hh : sel t (r - a) = k := by omega
          have := this.mp hh
          omega
        · intro h
          have hh : (List.take k t).sum < r - a ∧ r - a ≤ (List.take k t).sum + t.getD k 0 := by omega
          have := this.mpr hh
          omega

/-- a zero-weight entry is never selected -/
theorem sel_weight_pos (w : List ℕ) (r : ℕ) (h1 : 1 ≤ r) (h2 : r ≤ w.sum) (hj : sel w r < w.length) :
    0 < w.getD (sel w r) 0 := by
  have := (sel_spec w r (sel w r) h1 h2 hj).mp rfl
  omega
