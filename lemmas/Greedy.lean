import Mathlib.Data.Finset.Basic

/-!
R-SOFT meta-lemma (C05): the greedy-by-priority choice of soft constraints is maximal for every anti-monotone
satisfiability predicate: no rejected soft constraint could have been honoured together with the hard constraints and the
soft constraints that were kept.
-/

variable {α : Type*} [DecidableEq α]

/-- `greedy sat H l`: walk `l` (descending priority); keep `s` iff `H ∪ kept ∪ {s}` is satisfiable. -/
def greedy (sat : Finset α → Prop) [DecidablePred sat] (H : Finset α) : List α → Finset α
  | [] => H
  | s :: l => if sat (insert s H) then greedy sat (insert s H) l else greedy sat H l

theorem greedy_subset (sat : Finset α → Prop) [DecidablePred sat] (l : List α) :
    ∀ H : Finset α, H ⊆ greedy sat H l := by
  induction l with
  | nil => intro H; simp [greedy]
  | cons s l ih =>
    intro H
    unfold greedy
    split
    · exact (Finset.subset_insert s H).trans (ih (insert s H))
    · exact ih H

theorem greedy_sat (sat : Finset α → Prop) [DecidablePred sat] (l : List α) :
    ∀ H : Finset α, sat H → sat (greedy sat H l) := by
  induction l with
  | nil => intro H h; simpa [greedy] using h
  | cons s l ih =>
    intro H h
    unfold greedy
    split
    · rename_i hs; exact ih (insert s H) hs
    · exact ih H h

theorem greedy_maximal (sat : Finset α → Prop) [DecidablePred sat]
    (anti : ∀ A B : Finset α, A ⊆ B → sat B → sat A) (l : List α) :
    ∀ H : Finset α, ∀ s ∈ l, s ∉ greedy sat H l → ¬ sat (insert s (greedy sat H l)) := by
  induction l with
  | nil => intro H s hs; simp at hs
  | cons t l ih =>
    intro H s hs hnot
    rcases List.mem_cons.mp hs with rfl | hmem
    · -- s is the head
      unfold greedy at hnot ⊢
      split at hnot
      · rename_i hsat
        exact absurd ((greedy_subset sat l (insert s H)) (Finset.mem_insert_self s H)) hnot
      · rename_i hunsat
        rw [if_neg hunsat]
        intro hcontra
        apply hunsat
        exact anti _ _ (Finset.insert_subset_insert s (greedy_subset sat l H)) hcontra
    · -- s is in the tail
      unfold greedy at hnot ⊢
      split at hnot
      · rename_i hsat
        rw [if_pos hsat]
        exact ih (insert t H) s hmem hnot
      · rename_i hunsat
        rw [if_neg hunsat]
        exact ih H s hmem hnot
