"""Model-tree and call-lifecycle contracts: used-rand calculus (C03/C08), pre/post_randomize propagation (C17), tree
representation invariant and indexed references (C08), do_randomize phase order / rollback (C16, C17, C06), context-manager
stack balance (C16, C06), DSL expression-stack discipline (C01-D).  All obligations are over ghost call logs / ghost stacks;
the structure parameters are finite and enumerated (Boolean flags, <= 4 children)."""
import itertools
from pyvc.contract import contract
from pyvc.sym import And, Or, Not, Implies, Ite, Iff, lift
from pyvc.ghost import patched


class ChildLog:
    """ghost child field: records what its parent asks of it"""

    def __init__(self, name, log):
        self.name = name
        self.log = log
        self.parent = None
        self.idx = -1

    def set_used_rand(self, is_rand, level=0, in_set=None):
        self.log.append(("set_used_rand", self.name, is_rand, level))

    def pre_randomize(self, visited):
        self.log.append(("pre", self.name, tuple(id(v) for v in visited)))

    def post_randomize(self, visited):
        self.log.append(("post", self.name, tuple(id(v) for v in visited)))

    def dispose(self):
        self.log.append(("dispose", self.name))


class RandIf:
    def __init__(self, log, name):
        self.log = log
        self.name = name

    def do_pre_randomize(self):
        self.log.append(("cb_pre", self.name))

    def do_post_randomize(self):
        self.log.append(("cb_post", self.name))


BOOL3 = list(itertools.product((False, True), repeat=3))


@contract("field_scalar.set_used_rand", ["C03", "C08"], ["vsc.model.field_scalar_model.FieldScalarModel.set_used_rand"],
          lambda tier, seed: [(a, b, c_, l) for (a, b, c_) in BOOL3 for l in (0, 1, 2)])
def c_scalar_used_rand(c, is_rand, declared, mode, level):
    from vsc.model.field_scalar_model import FieldScalarModel
    f = FieldScalarModel("f", 8, False, declared)
    f.rand_mode = mode
    f.is_used_rand = not is_rand
    f.set_used_rand(is_rand, level)
    c.prove("is_used_rand == is_rand and ((declared and rand_mode) or level == 0)",
            f.is_used_rand == (is_rand and ((declared and mode) or level == 0)))
    c.prove("nothing else changes (declaration and rand_mode are kept)", f.is_declared_rand == declared and f.rand_mode == mode)


@contract("field_composite.set_used_rand", ["C03", "C08"],
          ["vsc.model.field_composite_model.FieldCompositeModel.set_used_rand",
           "vsc.model.field_array_model.FieldArrayModel.set_used_rand"],
          lambda tier, seed: [(a, b, c_, l, k, arr) for (a, b, c_) in BOOL3 for l in (0, 1) for k in (0, 1, 3) for arr in (False, True)])
def c_comp_used_rand(c, is_rand, declared, mode, level, k, arr):
    from vsc.model.field_composite_model import FieldCompositeModel
    from vsc.model.field_array_model import FieldArrayModel
    log = []
    if arr:
        o = FieldArrayModel("l", None, False, None, -1, -1, declared, False)
    else:
        o = FieldCompositeModel("o", declared)
    o.rand_mode = mode
    kids = [ChildLog("k%d" % i, log) for i in range(k)]
    for kd in kids:
        o.field_l.append(kd)
    if arr:
        o.size = ChildLog("size", log)
    o.set_used_rand(is_rand, level)
    want = is_rand and ((declared and mode) or level == 0)
    c.prove("composite: is_used_rand == is_rand and ((declared and rand_mode) or level == 0)", o.is_used_rand == want)
    exp = [("set_used_rand", kd.name, want, level + 1) for kd in kids]
    if arr:
        exp.append(("set_used_rand", "size", is_rand, level + 1))
    c.prove("every child is visited exactly once with the composite's own result and level+1 (a list also its size field)",
            log == exp, info="%r" % (log,))
    # a child reachable twice (aliased) is still visited once
    if k >= 1 and not arr:
        log.clear()
        o.field_l.append(kids[0])
        o.set_used_rand(is_rand, level)
        c.prove("an aliased child is visited once", log == exp)


@contract("field_composite.pre_post_randomize", ["C17"],
          ["vsc.model.field_composite_model.FieldCompositeModel.pre_randomize",
           "vsc.model.field_composite_model.FieldCompositeModel.post_randomize",
           "vsc.model.field_array_model.FieldArrayModel.pre_randomize",
           "vsc.model.field_array_model.FieldArrayModel.post_randomize",
           "vsc.model.field_scalar_model.FieldScalarModel.pre_randomize"],
          lambda tier, seed: [(u, r, k, arr) for u in (False, True) for r in (False, True) for k in (0, 1, 3)
                              for arr in (False, "fixed", "randsz", "scalar_randsz")])
def c_pre_post(c, used, has_if, k, arr):
    from vsc.model.field_composite_model import FieldCompositeModel
    from vsc.model.field_array_model import FieldArrayModel
    log = []
    if arr:
        # lists of objects (fixed and random size) and a random-size scalar list: every element is a child like any other
        o = FieldArrayModel("l", None, arr == "scalar_randsz", None, 8 if arr == "scalar_randsz" else -1,
                            False if arr == "scalar_randsz" else -1, True, arr != "fixed")
    else:
        o = FieldCompositeModel("o", True)
    o.rand_if = RandIf(log, "o") if has_if else None
    o.is_used_rand = used
    kids = [ChildLog("k%d" % i, log) for i in range(k)]
    for kd in kids:
        o.field_l.append(kd)
    if arr:
        o.size.set_val(k)          # the solved size equals the number of elements (nothing to trim)
    outer = object()
    for phase, fn, cb in (("pre", o.pre_randomize, "cb_pre"), ("post", o.post_randomize, "cb_post")):
        log.clear()
        visited = [outer]
        fn(visited)
        exp = ([(cb, "o")] if (used and has_if) else []) + [(phase, kd.name, (id(outer), id(o))) for kd in kids]
        c.prove("%s_randomize: own callback iff used-random (and present), first; then every child exactly once" % phase,
                log == exp, info=repr(log))
        c.prove("%s_randomize: the visited list is restored" % phase, visited == [outer])
        log.clear()
        visited = [kids[0]] if kids else []
        fn(visited)
        c.prove("%s_randomize: a child already being visited is not re-entered" % phase,
                [e for e in log if e[0] == phase] == [(phase, kd.name, (id(kids[0]), id(o))) for kd in kids[1:]] if kids else True)


@contract("field_array.call_bracket", ["C16", "C04"],
          ["vsc.model.field_array_model.FieldArrayModel.pre_randomize",
           "vsc.model.field_array_model.FieldArrayModel.post_randomize",
           "vsc.model.field_array_model.FieldArrayModel.abort_randomize",
           "vsc.model.field_array_model.FieldArrayModel.trim_to_size",
           "vsc.model.randomizer.Randomizer._begin_call",
           "vsc.model.randomizer.Randomizer._abort_call"],
          lambda tier, seed: [(n0, pad, end, stale) for n0 in (0, 1, 3) for pad in (0, 2, 5) for end in ("abort", "abort_early", "post")
                              for stale in (None, 0, 2, 7)],
          note="a random-size scalar list through one call: n0 elements at the start (0: fresh or cleared list), padded by 0..5 "
               "elements for the solve, then the call is aborted (before or after pre_randomize) or completes with every solved "
               "size 0..n0+pad; a length left over from an earlier call (None, 0, 2, 7) must not matter")
def c_call_bracket(c, n0, pad, end, stale):
    from vsc.model.field_array_model import FieldArrayModel
    from vsc.model.field_scalar_model import FieldScalarModel
    import vsc.model.randomizer as R

    def mk():
        o = FieldArrayModel("l", None, True, None, 8, False, True, True)
        for i in range(n0):
            o.append(FieldScalarModel("e", 8, False, True))
        if stale is not None:
            o._call_len = stale                                       # what an earlier, interrupted call may have left
        o.is_used_rand = True
        return o

    def grow(o):
        for i in range(pad):                                          # the size bound admits more elements: padded for the solve
            f = FieldScalarModel("p", 8, False, True)
            f.parent = o
            o.field_l.append(f)
    orig = None
    if end in ("abort", "abort_early"):
        o = mk()
        orig = list(o.field_l)
        R.Randomizer._begin_call(o)
        if end == "abort":
            o.pre_randomize([])
            grow(o)
            o.size.set_val(n0 + pad)
        R.Randomizer._abort_call(o)
        c.prove("C16: a call that ends with an exception leaves the list with exactly the elements it had when the call started "
                "(also when it was empty)", o.field_l == orig, info="%d elements, started with %d" % (len(o.field_l), n0))
        if end == "abort":
            c.prove("C16: ... and its size field reads that length again", int(o.size.get_val()) == n0, info=str(int(o.size.get_val())))
        c.prove("C16: no length is remembered once the call is over", getattr(o, "_call_len", None) is None)
        c.prove("C16: no cached sum/product term survives an aborted call", o.sum_expr_btor is None and o.product_expr_btor is None)
        return
    for sz in range(0, n0 + pad + 1):
        o = mk()
        orig = list(o.field_l)
        R.Randomizer._begin_call(o)
        o.pre_randomize([])
        grow(o)
        full = list(o.field_l)
        o.size.set_val(sz)
        o.post_randomize([])
        c.prove("C04: after a completed call the list holds exactly the first `size` elements", o.field_l == full[:sz],
                info="size %d, %d elements" % (sz, len(o.field_l)))
        c.prove("C16: no length is remembered once the call is over", getattr(o, "_call_len", None) is None)
        # an abort that arrives late (exception after post_randomize of this list) must not resurrect or drop anything
        R.Randomizer._abort_call(o)
        c.prove("C16: an abort after the list's own post_randomize leaves the solved list alone", o.field_l == full[:sz])


@contract("rand_obj.do_pre_post_randomize", ["C17"], ["vsc.rand_obj._randobj.__call__"],
          lambda tier, seed: [(a, b, w) for a in (False, True) for b in (False, True) for w in ("same", "derived", "base_and_override", "instance_level")])
def c_facade_forward(c, has_pre, has_post, where):
    import vsc
    log = []

    class B(object):
        def __init__(self):
            self.a = vsc.rand_bit_t(4)
    hooks = {}
    if has_pre:
        hooks["pre_randomize"] = lambda self: log.append("pre")
    if has_post:
        hooks["post_randomize"] = lambda self: log.append("post")
    if where == "same":
        for k, v in hooks.items():
            setattr(B, k, v)
        C = vsc.randobj(B)
    elif where == "derived":
        # the hooks are defined only by a derived randobj class; the base (decorated first) has none
        Base = vsc.randobj(B)

        class D(Base):
            def __init__(self):
                super().__init__()
                self.b = vsc.rand_bit_t(4)
        for k, v in hooks.items():
            setattr(D, k, v)
        C = vsc.randobj(D)
    elif where == "base_and_override":
        B.pre_randomize = lambda self: log.append("base-pre")
        B.post_randomize = lambda self: log.append("base-post")
        Base = vsc.randobj(B)

        class D(Base):
            def __init__(self):
                super().__init__()
        for k, v in hooks.items():
            setattr(D, k, v)
        C = vsc.randobj(D)
    else:
        C = vsc.randobj(B)
    o = C()
    if where == "instance_level":
        import types
        for k, v in hooks.items():
            object.__setattr__(o, k, types.MethodType(v, o))
    o.do_pre_randomize()
    o.do_post_randomize()
    exp = (["pre"] if has_pre else (["base-pre"] if where == "base_and_override" else [])) + \
          (["post"] if has_post else (["base-post"] if where == "base_and_override" else []))
    c.prove("the facade forwards each callback exactly once iff the object has the user method (own class, derived class, "
            "override, or instance attribute)", log == exp, info="%s got %r want %r" % (where, log, exp))
    c.prove("the composite model's rand_if is the facade object", o.get_model().rand_if is o)


# ---- do_randomize phase order (C17, C16, C06) -----------------------------------------------------------
@contract("randomizer.do_randomize.order", ["C17", "C16", "C06", "C05", "C03", "C02", "C01"], ["vsc.model.randomizer.Randomizer.do_randomize"],
          lambda tier, seed: [(n, inl, fail) for n in (1, 2) for inl in (False, True) for fail in ("no", "solve", "pre", "post", "rewrite")],
          replay="none")
def c_do_randomize(c, nroots, inline, fail):
    import vsc.model.randomizer as R
    from vsc.model.solve_failure import SolveFailure
    log = []

    class Boom(Exception):
        pass

    class Root:
        def __init__(self, nm):
            self.name = nm

        def set_used_rand(self, r, level=0, in_set=None):
            log.append(("set_used_rand", self.name, r, level))

        def pre_randomize(self, visited):
            log.append(("pre", self.name))
            if fail == "pre" and self.name == "r0":
                raise Boom()

        def post_randomize(self, visited):
            log.append(("post", self.name))
            if fail == "post" and self.name == "r0":
                raise Boom()

        def accept(self, v):
            pass

        def dispose(self):
            log.append(("dispose", self.name))

    class Bounds:
        def __init__(self):
            self.bound_m = {"bm": 1}

        def process(self, fl, cl, sub=True):
            log.append(("bounds", len(cl)))

    class ArrB:
        @staticmethod
        def build(m, bm):
            log.append(("array", getattr(m, "name", "inline")))
            if fail == "rewrite" and getattr(m, "name", "") == "r0":
                raise Boom()          # e.g. an index beyond the list met while unrolling a foreach
            return []

    class DistB:
        @staticmethod
        def build(rs, m):
            log.append(("dist", getattr(m, "name", "inline")))

    class RIB:
        @staticmethod
        def build(fl, cl, rng=None):
            log.append(("randinfo", len(fl), len(cl)))
            return "RI"

    class Clear:
        def clear(self, e):
            log.append(("clear_soft", getattr(e, "name", "inline")))

    class Rollback:
        @staticmethod
        def rollback(m):
            log.append(("rollback", m.name))

    class Inl:
        name = "inline"

        def accept(self, v):
            pass

    def randomize(self, ri, bm):
        log.append(("randomize", ri, bm is not None))
        if fail == "solve":
            raise SolveFailure("solve failure", "d")
    roots = [Root("r%d" % i) for i in range(nroots)]
    inl = [Inl()] if inline else None
    exc = None
    with patched((R, "VariableBoundVisitor", Bounds), (R, "ArrayConstraintBuilder", ArrB), (R, "DistConstraintBuilder", DistB),
                 (R, "RandInfoBuilder", RIB), (R, "ClearSoftPriorityVisitor", Clear),
                 (R, "ConstraintOverrideRollbackVisitor", Rollback), (R.Randomizer, "randomize", randomize),
                 (R, "profile_on", lambda: False)):
        try:
            R.Randomizer.do_randomize("RS", None, list(roots), inl)
        except (SolveFailure, Boom) as e:
            exc = e
    names = [r.name for r in roots]
    kinds = [e[0] for e in log]

    def first(k):
        return kinds.index(k) if k in kinds else None

    def last(k):
        return len(kinds) - 1 - kinds[::-1].index(k) if k in kinds else None
    marks = [e for e in log if e[0] == "set_used_rand"]
    c.check("every root is marked used-random at level 0, once, before anything else",
            marks[:len(names)] == [("set_used_rand", n, True, 0) for n in names]
            and [i for i, e in enumerate(log) if e[0] == "set_used_rand" and e[2]][-1] < first("pre"))
    aborted = fail in ("solve", "pre", "rewrite")
    c.check("C16: a call that ends with an exception before post_randomize rolls every rewrite back, un-marks every root and "
            "drops every solver handle (after the last step of the call); a call that completes does none of the un-marking",
            (marks[len(names):] == [("set_used_rand", n, False, 0) for n in names]
             and [e[1] for e in log if e[0] == "dispose"] == names
             and [e for e in log if e[0] == "rollback"] == [("rollback", n) for n in names]
             and min(i for i, e in enumerate(log) if e[0] in ("dispose",) or (e[0] == "set_used_rand" and not e[2]))
             > max(i for i, e in enumerate(log) if e[0] in ("pre", "array", "dist", "randomize", "bounds") ))
            if aborted else (marks[len(names):] == [] and "dispose" not in kinds), info=repr(log))
    c.check("soft priorities of every root (and of the inline block) are cleared at the start of the call",
            [e[1] for e in log if e[0] == "clear_soft"] == names + (["inline"] if inline and fail != "pre" else []))
    if fail == "rewrite":
        c.check("an exception raised while the constraints are rewritten for the call propagates", isinstance(exc, Boom))
        c.check("nothing is solved after a failing rewrite, and no post_randomize runs", "randomize" not in kinds and "post" not in kinds)
        return
    if fail == "pre":
        c.check("an exception in pre_randomize propagates", isinstance(exc, Boom))
        c.check("nothing is solved and nothing is rewritten after a failing pre_randomize",
                "randomize" not in kinds and "array" not in kinds and "dist" not in kinds)
        return
    c.check("pre_randomize: every root exactly once, before bounds, array/dist rewriting and solving",
            [e for e in log if e[0] == "pre"] == [("pre", n) for n in names] and last("pre") < first("bounds")
            and last("pre") < first("array") and last("pre") < first("randomize"))
    c.check("array/dist rewriting covers every root and the inline block, between the two bound passes, before solving",
            [e[1] for e in log if e[0] == "array"] == names + (["inline"] if inline else [])
            and [e[1] for e in log if e[0] == "dist"] == names + (["inline"] if inline else [])
            and kinds.count("bounds") == 2 and first("bounds") < first("array") and last("array") < last("bounds") < first("randomize"))
    c.check("the inline block is handed to this call's rand-info builder (and to nothing that outlives the call)",
            [e for e in log if e[0] == "randinfo"] == [("randinfo", nroots, 1 if inline else 0)])
    c.check("exactly one solve", kinds.count("randomize") == 1)
    c.check("rewrites are rolled back on every root after the solve, whether it succeeded or failed",
            [e for e in log if e[0] == "rollback"] == [("rollback", n) for n in names] and first("rollback") > first("randomize"))
    if fail == "solve":
        c.check("SolveFailure propagates to the caller", isinstance(exc, SolveFailure))
        c.check("no post_randomize after a failed solve", "post" not in kinds)
    elif fail == "post":
        c.check("an exception in post_randomize propagates after the rollback", isinstance(exc, Boom) and first("post") > last("rollback"))
    else:
        c.check("no exception on the success path", exc is None)
        c.check("post_randomize: every root exactly once, after the solve and the rollback",
                [e for e in log if e[0] == "post"] == [("post", n) for n in names] and first("post") > last("rollback"))


# ---- tree representation invariant (C08) -----------------------------------------------------------------
def inv_tree(o, with_names=True):
    ok = all(f.idx == i and f.parent is o for i, f in enumerate(o.field_l))
    if with_names:
        ok = ok and all(o.field_id_m.get(f.name) == i for i, f in enumerate(o.field_l))
    return ok


class Leaf:
    def __init__(self, name):
        self.name = name
        self.parent = None
        self.idx = -1
        self.is_declared_rand = False
        self.rand_mode = False


@contract("field_composite.tree_invariant", ["C08", "C04"],
          ["vsc.model.field_composite_model.FieldCompositeModel.add_field", "vsc.model.field_composite_model.FieldCompositeModel.set_field",
           "vsc.model.field_composite_model.FieldCompositeModel.get_field", "vsc.model.field_array_model.FieldArrayModel.append",
           "vsc.model.field_array_model.FieldArrayModel.add_field", "vsc.model.field_array_model.FieldArrayModel.clear",
           "vsc.model.field_array_model.FieldArrayModel._set_size"],
          lambda tier, seed: [(k,) for k in (0, 1, 2, 4)])
def c_tree(c, k):
    from vsc.model.field_composite_model import FieldCompositeModel
    from vsc.model.field_array_model import FieldArrayModel
    o = FieldCompositeModel("o", True)
    for i in range(k):
        o.add_field(Leaf("f%d" % i))
    c.prove("Inv-tree after k add_field: field_l[i].idx == i, parent is self, field_id_m[name] == i", inv_tree(o))
    n = Leaf("new")
    r = o.add_field(n)
    c.prove("add_field keeps Inv-tree, appends at the end and returns the field", inv_tree(o) and o.field_l[-1] is n and r is n)
    c.prove("get_field(i) is field_l[i] for every i", all(o.get_field(i) is o.field_l[i] for i in range(len(o.field_l))))
    if k >= 1:
        m = Leaf("repl")
        o.set_field(0, m)
        c.prove("set_field(i, f): position i holds f with idx i and parent self; other positions untouched",
                o.field_l[0] is m and m.idx == 0 and m.parent is o and inv_tree(o, with_names=False))
    a = FieldArrayModel("l", None, True, None, 8, False, True, False)
    for i in range(k):
        a.add_field()
    c.prove("list: Inv-tree and size.val == len(field_l) after k add_field()",
            inv_tree(a, False) and int(a.size.get_val()) == k == len(a.field_l))
    a.append(Leaf("x"))
    c.prove("list: append keeps Inv-tree and size.val == len(field_l)", inv_tree(a, False) and int(a.size.get_val()) == k + 1)
    a.clear()
    c.prove("list: clear empties the list and sets size.val to 0", len(a.field_l) == 0 and int(a.size.get_val()) == 0)
    a.add_field()
    c.prove("list: add_field after clear starts again at index 0", inv_tree(a, False) and int(a.size.get_val()) == 1)


@contract("expr_indexed_field_ref.get_target", ["C08"],
          ["vsc.model.expr_indexed_field_ref_model.ExprIndexedFieldRefModel.get_target",
           "vsc.model.expr_array_subscript_model.ExprArraySubscriptModel.subscript",
           "vsc.visitors.expr2field_visitor.Expr2FieldVisitor.field"],
          lambda tier, seed: [(d, f) for d in (1, 2, 3) for f in (1, 2, 3)])
def c_get_target(c, depth, fan):
    from vsc.model.field_composite_model import FieldCompositeModel
    from vsc.model.field_scalar_model import FieldScalarModel
    from vsc.model.field_array_model import FieldArrayModel
    from vsc.model.expr_fieldref_model import ExprFieldRefModel
    from vsc.model.expr_indexed_field_ref_model import ExprIndexedFieldRefModel
    from vsc.model.expr_array_subscript_model import ExprArraySubscriptModel
    from vsc.model.expr_literal_model import ExprLiteralModel
    from vsc.visitors.expr2field_visitor import Expr2FieldVisitor

    def mk(d, nm):
        o = FieldCompositeModel(nm, True)
        for i in range(fan):
            if d > 1:
                o.add_field(mk(d - 1, "%s.%d" % (nm, i)))
            else:
                o.add_field(FieldScalarModel("%s.%d" % (nm, i), 8, False, True))
        return o
    root = mk(depth, "r")
    ok = True
    for path in itertools.product(range(fan), repeat=depth):
        want = root
        for i in path:
            want = want.field_l[i]
        e = ExprIndexedFieldRefModel(ExprFieldRefModel(root), list(path))
        ok = ok and e.get_target() is want and Expr2FieldVisitor().field(e) is want
        # chained form: root -> [p0] -> [p1..]
        if depth >= 2:
            e2 = ExprIndexedFieldRefModel(ExprIndexedFieldRefModel(ExprFieldRefModel(root), [path[0]]), list(path[1:]))
            ok = ok and e2.get_target() is want
    c.prove("get_target() is root.field_l[i0].field_l[i1]... for every index path (siblings never alias)", ok)
    arr = FieldArrayModel("l", None, False, None, -1, -1, True, False)
    elems = [mk(1, "e%d" % i) for i in range(3)]
    for e_ in elems:
        arr.append(e_)
    ok = True
    for i in range(3):
        sub = ExprArraySubscriptModel(ExprFieldRefModel(arr), ExprLiteralModel(i, False, 32))
        ok = ok and sub.subscript() is elems[i]
        for j in range(fan):
            ok = ok and ExprIndexedFieldRefModel(sub, [j]).get_target() is elems[i].field_l[j]
    c.prove("list[i].field j denotes field j of exactly element i", ok)


# ---- context managers: stack balance (C16, C06) -----------------------------------------------------------
def _depths():
    import vsc.impl.ctor as ctor
    import vsc.impl.expr_mode as em
    return (len(ctor.constraint_scope_stack), len(ctor.expr_l), len(ctor.srcinfo_mode_s), len(em._expr_mode), len(em._raw_mode),
            len(ctor.foreach_arr_s))


def cm_cases(tier, seed):
    return [(k, r) for k in ("if_then", "else_if", "else_then", "implies", "foreach", "expr_mode", "raw_mode", "covergroup_int")
            for r in (False, True)]


@contract("constraints.context_managers.balance", ["C16", "C06"],
          ["vsc.constraints.if_then", "vsc.constraints.else_if", "vsc.constraints.else_then", "vsc.constraints.implies",
           "vsc.constraints.foreach", "vsc.impl.expr_mode.expr_mode", "vsc.methods.raw_mode",
           "vsc.impl.covergroup_int.CovergroupInt.__enter__"], cm_cases)
def c_cm_balance(c, kind, raises):
    import vsc
    import vsc.impl.ctor as ctor
    from vsc.impl.expr_mode import expr_mode, enter_expr_mode, leave_expr_mode
    from vsc.model.constraint_block_model import ConstraintBlockModel
    from vsc.impl.covergroup_int import CovergroupInt

    class Boom(Exception):
        pass
    a = vsc.rand_bit_t(8)
    a.get_model()
    lst = vsc.rand_list_t(vsc.bit_t(8), 2)
    lst.get_model()
    enter_expr_mode()
    ctor.push_constraint_scope(ConstraintBlockModel("blk"))
    try:
        if kind in ("else_if", "else_then"):
            with vsc.if_then(a == 1):
                a == 2
        before = _depths()
        mk = {"if_then": lambda: vsc.if_then(a == 1), "else_if": lambda: vsc.else_if(a == 2), "else_then": lambda: vsc.else_then,
              "implies": lambda: vsc.implies(a == 1), "foreach": lambda: vsc.foreach(lst, idx=True),
              "expr_mode": lambda: expr_mode(), "raw_mode": lambda: vsc.raw_mode(),
              "covergroup_int": lambda: CovergroupInt(None)}[kind]
        try:
            with mk():
                if kind not in ("expr_mode", "raw_mode", "covergroup_int"):
                    a < 5
                if raises:
                    raise Boom()
        except Boom:
            pass
        after = _depths()
        if raises and kind not in ("expr_mode", "raw_mode", "covergroup_int"):
            ctor.clear_exprs()
            after = _depths()[:1] + (before[1],) + _depths()[2:]
        c.prove("__exit__ restores the depth of every shared stack, whatever (t, v, tb) is", after == before,
                info="before %r after %r" % (before, after))
    finally:
        ctor.constraint_scope_stack.clear()
        ctor.expr_l.clear()
        ctor.foreach_arr_s.clear()
        leave_expr_mode()


# ---- DSL expression-stack discipline (C01-D) ----------------------------------------------------------------
@contract("types.expr_stack_discipline", ["C01"],
          ["vsc.types.expr.bin_expr", "vsc.types.type_base.bin_expr", "vsc.types.type_base.to_expr", "vsc.types.to_expr",
           "vsc.types.rangelist.__contains__", "vsc.types.type_base.inside", "vsc.types.type_base.__getitem__",
           "vsc.impl.ctor.push_constraint_stmt", "vsc.impl.ctor.pop_constraint_scope", "vsc.impl.ctor.pop_exprs"],
          lambda tier, seed: [(op,) for op in ("__eq__", "__ne__", "__lt__", "__le__", "__gt__", "__ge__", "__add__", "__sub__",
                                               "__mul__", "__truediv__", "__floordiv__", "__mod__", "__and__", "__or__", "__xor__",
                                               "__lshift__", "__rshift__")])
def c_expr_stack(c, opname):
    import vsc
    import vsc.impl.ctor as ctor
    from vsc.impl.expr_mode import enter_expr_mode, leave_expr_mode
    from vsc.model.bin_expr_type import BinExprType
    from vsc.model.expr_bin_model import ExprBinModel
    from vsc.model.expr_fieldref_model import ExprFieldRefModel
    from vsc.model.expr_literal_model import ExprLiteralModel
    from vsc.model.constraint_block_model import ConstraintBlockModel
    from vsc.model.constraint_expr_model import ConstraintExprModel
    OP = {"__eq__": "Eq", "__ne__": "Ne", "__lt__": "Lt", "__le__": "Le", "__gt__": "Gt", "__ge__": "Ge", "__add__": "Add",
          "__sub__": "Sub", "__mul__": "Mul", "__truediv__": "Div", "__floordiv__": "Div", "__mod__": "Mod", "__and__": "And",
          "__or__": "Or", "__xor__": "Xor", "__lshift__": "Sll", "__rshift__": "Srl"}[opname]
    a, b = vsc.rand_bit_t(8), vsc.rand_int_t(16)
    a.get_model()
    b.get_model()
    enter_expr_mode()
    try:
        sentinel = ExprLiteralModel(7, False, 8)
        ctor.expr_l.clear()
        ctor.push_expr(sentinel)
        # field op field
        e = getattr(a, opname)(b)
        st = ctor.expr_l
        c.prove("field op field: stack S -> S.[Bin(lhs, op, rhs)]", len(st) == 2 and st[0] is sentinel and st[1] is e.em
                and isinstance(e.em, ExprBinModel) and e.em.op is BinExprType[OP]
                and isinstance(e.em.lhs, ExprFieldRefModel) and e.em.lhs.fm is a.get_model()
                and isinstance(e.em.rhs, ExprFieldRefModel) and e.em.rhs.fm is b.get_model())
        # expr op literal
        e2 = getattr(e, opname)(5)
        st = ctor.expr_l
        c.prove("expr op literal: stack S.[x] -> S.[Bin(x, op, Literal)] with a 32-bit signed literal of that value",
                len(st) == 2 and st[0] is sentinel and st[1] is e2.em and e2.em.lhs is e.em and e2.em.op is BinExprType[OP]
                and isinstance(e2.em.rhs, ExprLiteralModel) and int(e2.em.rhs.val()) == 5 and e2.em.rhs.width() == 32
                and e2.em.rhs.is_signed() is True)
        # expr op expr (both on the stack, in order)
        ctor.expr_l.clear()
        ctor.push_expr(sentinel)
        x = a + 1
        y = b - 2
        z = getattr(x, opname)(y)
        st = ctor.expr_l
        c.prove("expr op expr: stack S.[l].[r] -> S.[Bin(l, op, r)]", len(st) == 2 and st[0] is sentinel and st[1] is z.em
                and z.em.lhs is x.em and z.em.rhs is y.em)
        # a statement drains exactly the pending expressions, in order, into the innermost open scope
        ctor.expr_l.clear()
        blk = ConstraintBlockModel("blk")
        ctor.push_constraint_scope(blk)
        p = a < 3
        q = getattr(a, opname)(b)
        with vsc.if_then(b == 1):
            r = a > 4
        s = a != 9
        out = ctor.pop_constraint_scope()
        from vsc.model.constraint_if_else_model import ConstraintIfElseModel
        cl = blk.constraint_l
        ok = out is blk and len(cl) == 4 and isinstance(cl[0], ConstraintExprModel) and cl[0].e is p.em \
            and isinstance(cl[1], ConstraintExprModel) and cl[1].e is q.em and isinstance(cl[2], ConstraintIfElseModel) \
            and len(cl[2].true_c.constraint_l) == 1 and cl[2].true_c.constraint_l[0].e is r.em and cl[2].false_c is None
        c.prove("statements drain the pending expressions in order into the innermost open scope; nothing is left on the stack",
                ok and cl[3].e is s.em and len(ctor.expr_l) == 0 and len(ctor.constraint_scope_stack) == 0,
                info="%r" % ([type(x).__name__ for x in blk.constraint_l],))
    finally:
        ctor.constraint_scope_stack.clear()
        ctor.expr_l.clear()
        leave_expr_mode()


# ---- rollback of per-call rewrites reaches every place a rewrite can be installed ---------------------------------------------
@contract("constraint_override_rollback.rollback", ["C16", "C06", "C03", "C02", "C04"],
          ["vsc.visitors.constraint_override_rollback_visitor.ConstraintOverrideRollbackVisitor.rollback",
           "vsc.visitors.constraint_override_rollback_visitor.ConstraintOverrideRollbackVisitor.visit_constraint_override",
           "vsc.visitors.constraint_override_visitor.ConstraintOverrideVisitor.visit_constraint_scope"],
          lambda tier, seed: [(where, pos, nested) for where in ("class", "dynamic", "both") for pos in (0, 1, 2) for nested in (False, True)],
          replay="none",
          note="rollback: overrides (per-call foreach / dist rewrites) installed at statement position 0..2 of a class block, of a "
               "dynamic block, or both, on the root or on a sub-object, directly or inside an if/else scope")
def c_rollback(c, where, pos, nested):
    from vsc.model.field_composite_model import FieldCompositeModel
    from vsc.model.constraint_block_model import ConstraintBlockModel
    from vsc.model.constraint_scope_model import ConstraintScopeModel
    from vsc.model.constraint_override_model import ConstraintOverrideModel
    from vsc.model.constraint_model import ConstraintModel
    from vsc.visitors.constraint_override_rollback_visitor import ConstraintOverrideRollbackVisitor

    class St(ConstraintModel):
        def __init__(self, nm):
            super().__init__()
            self.nm = nm

        def accept(self, v):
            pass

        def build(self, btor, soft=False):
            return None
    root = FieldCompositeModel("o", True)
    sub = root.add_field(FieldCompositeModel("s", True))
    tgt = sub if nested else root
    installed = []

    def mk_block(name, with_override):
        sts = [St("%s%d" % (name, i)) for i in range(3)]
        orig = list(sts)
        if with_override:
            ov = ConstraintOverrideModel(sts[pos], St("rewrite"))
            sts[pos] = ov
            installed.append(ov)
        inner = ConstraintScopeModel(sts)
        return ConstraintBlockModel(name, [St(name + "_head"), inner]), inner, orig
    blk, inner_c, orig_c = mk_block("c", where in ("class", "both"))
    dyn, inner_d, orig_d = mk_block("d", where in ("dynamic", "both"))
    dyn.is_dynamic = True
    tgt.add_constraint(blk)
    tgt.add_dynamic_constraint(dyn)
    ConstraintOverrideRollbackVisitor.rollback(root)
    c.check("after the rollback every statement of every class block is the original statement again",
            all(a is b for a, b in zip(inner_c.constraint_l, orig_c)) and len(inner_c.constraint_l) == 3)
    c.check("after the rollback every statement of every dynamic block is the original statement again "
            "(a dynamic block is rewritten in place when a call references it)",
            all(a is b for a, b in zip(inner_d.constraint_l, orig_d)) and len(inner_d.constraint_l) == 3)
    c.check("no override object is left anywhere in the object's blocks",
            not any(isinstance(x, ConstraintOverrideModel) for x in inner_c.constraint_l + inner_d.constraint_l))
