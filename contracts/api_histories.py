"""Bounded stand-in (public API, real Boolector) for the history dimension of C02 / C01: SolveFailure exactly when the hard
constraints are unsatisfiable *given the current values of the non-random fields*, for every short history of calls that mixes
failures, edits of non-random state (a control field, the list length) and inline constraints on one and the same object."""
import itertools
from pyvc.contract import contract, library_only

STEPS = ("mode0", "mode1", "mode2", "append", "inline_bad", "inline_eq", "plain")


def hist_cases(tier, seed):
    n = 4 if tier == "thorough" else 3
    return [(list(h),) for h in itertools.product(STEPS, repeat=n)]


@contract("api_histories.family", ["C02", "C01"],
          ["vsc.model.randomizer.Randomizer.do_randomize", "vsc.visitors.array_constraint_builder.ArrayConstraintBuilder.visit_constraint_foreach",
           "vsc.visitors.array_constraint_builder.ArrayConstraintBuilder.visit_constraint_if_else",
           "vsc.visitors.constraint_override_rollback_visitor.ConstraintOverrideRollbackVisitor.rollback"],
          hist_cases, kind="bounded",
          bound="one object (non-random control field, 3-bit list of 2..4 elements with foreach / if_then-on-control / unique "
                "constraints, a dist, one scalar); every history of 3 (quick) / 4 (thorough) steps over {control := 0,1,2; append an "
                "element; call with an unsatisfiable / a satisfiable inline constraint; plain call}; expected outcome by exhaustive "
                "enumeration of the list values")
def c_histories(c, hist):
    import vsc
    from vsc.model.solve_failure import SolveFailure

    @vsc.randobj
    class H(object):
        def __init__(self):
            self.mode = vsc.uint8_t(1)
            self.l = vsc.rand_list_t(vsc.bit_t(3), sz=2)
            self.x = vsc.rand_bit_t(3)
            self.d = vsc.rand_bit_t(3)

        @vsc.constraint
        def cc(self):
            with vsc.foreach(self.l, idx=True) as i:
                self.l[i] < 5
                with vsc.if_then(self.mode == 0):
                    self.l[i] > 5
                with vsc.if_then(self.mode == 2):
                    self.l[i] != i
            vsc.unique(self.l)
            vsc.dist(self.d, [vsc.weight(1, 3), vsc.weight((4, 6), 1)])

    def feasible(mode, n, inline):
        """exhaustive reference: is there a list of n distinct values satisfying the block for this control value?"""
        for vals in itertools.product(range(8), repeat=n):
            if len(set(vals)) != n or not all(v < 5 for v in vals):
                continue
            if mode == 0 and not all(v > 5 for v in vals):
                continue
            if mode == 2 and not all(v != i for i, v in enumerate(vals)):
                continue
            if inline == "bad" and not vals[0] > 6:
                continue
            return True                                    # x, d are free enough: x == l[0] and the dist are always satisfiable
        return False
    o = H()
    mode, n = 1, 2
    for k, step in enumerate(hist):
        inline = None
        if step.startswith("mode"):
            mode = int(step[4])
            o.mode = mode
        elif step == "append":
            if n < 4:
                o.l.append(0)
                n += 1
        elif step == "inline_bad":
            inline = "bad"
        elif step == "inline_eq":
            inline = "eq"
        want = feasible(mode, n, inline)
        tag = "history %r step %d (mode=%d, len=%d, inline=%s)" % (hist, k, mode, n, inline)
        try:
            if inline == "bad":
                with o.randomize_with() as it:
                    it.l[0] > 6
            elif inline == "eq":
                with o.randomize_with() as it:
                    it.x == it.l[0]
            else:
                o.randomize()
            got = True
        except SolveFailure:
            got = False
        except Exception as e:
            library_only(e)
            c.check("C02: no exception other than SolveFailure comes out of a call, whatever happened before on the object", False,
                    info="%s: %s: %s" % (tag, type(e).__name__, e))
            return
        c.check("C02: SolveFailure exactly when the constraints are unsatisfiable for the CURRENT control value and list length, "
                "after any history of failures and edits", got == want, info="%s solved=%s satisfiable=%s" % (tag, got, want))
        if got:
            L = [int(v) for v in o.l]
            ok = (len(L) == n and len(set(L)) == n and all(v < 5 for v in L) and (mode != 2 or all(v != i for i, v in enumerate(L)))
                  and (inline != "eq" or int(o.x) == L[0]) and int(o.d) in (1, 4, 5, 6))
            c.check("C01: the values returned after any history satisfy the constraints for the current control value and length",
                    ok, info="%s l=%r x=%d d=%d" % (tag, L, int(o.x), int(o.d)))
