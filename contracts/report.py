"""C13 - coverage reports and saved databases equal the in-memory coverage.

(1) proved: CoverageSaveVisitor against recording ghost UCIS scopes, for symbolic hit counts; (2) bounded: the real PyUCIS
pipeline (report model, text rendering, XML write + re-read) on small covergroup populations through the public API."""
import itertools
import random
from pyvc.contract import contract
from pyvc.sym import And, Or, Not, Implies, Ite, Iff, lift
from contracts.coverage import BinStub, CgStub


class GScope:
    """recording ghost UCIS scope / database"""

    def __init__(self, kind, name, log, parent=None):
        self.kind = kind
        self.name = name
        self.log = log
        self.children = []
        self.bins = []

    def _mk(self, kind, name, *a):
        s = GScope(kind, name, self.log, self)
        s.args = a
        self.children.append(s)
        self.log.append((kind, name))
        return s

    def createScope(self, name, *a):
        return self._mk("du", name, *a)

    def createInstance(self, name, *a):
        return self._mk("inst", name, *a)

    def createCovergroup(self, name, loc, weight, src):
        return self._mk("covergroup", name, weight)

    def createCoverInstance(self, name, loc, weight, src):
        return self._mk("coverinstance", name, weight)

    def createCoverpoint(self, name, loc, weight, src):
        return self._mk("coverpoint", name, weight)

    def createCross(self, name, loc, weight, src, cps):
        s = self._mk("cross", name, weight)
        s.cps = cps
        return s

    def createBin(self, name, loc, at_least, count, rhs, kind="CVGBIN-default"):
        self.bins.append((name, at_least, count, rhs, kind))
        return object()

    def createFileHandle(self, path, cwd):
        return ("fh", path)

    def createHistoryNode(self, *a):
        raise AssertionError("no history node expected without test data")


def save_shapes(tier, seed):
    out = []
    for cps in ([[2]], [[1, 2]], [[2], [1, 1]], [[3], [2]]):
        for ninst in (0, 1, 2):
            for cross in (False, True):
                if cross and len(cps) < 2:
                    continue
                out.append((cps, ninst, cross))
    return out


def _mk_cg(c, name, cps, cross, tag):
    from vsc.model.covergroup_model import CovergroupModel
    from vsc.model.coverpoint_model import CoverpointModel
    from vsc.model.coverpoint_cross_model import CoverpointCrossModel
    from vsc.model.coverage_options_model import CoverageOptionsModel
    cg = CovergroupModel("cls_" + name if tag == "t" else name)         # typename (the class) differs from the type's own name
    cg.name = name
    allc = []
    for ci, sizes in enumerate(cps):
        opt = CoverageOptionsModel()
        opt.at_least = c.fresh_int("at_least", 1)
        opt.weight = c.fresh_int("weight", 0)
        cp = CoverpointModel(None, "cp%d" % ci, opt)
        for bi, n in enumerate(sizes):
            b = BinStub(n)
            b.name = "b%d" % bi
            cp.add_bin_model(b)
        ig = BinStub(1)
        ig.name = "ig"
        cp.add_ignore_bin_model(ig)
        il = BinStub(2)
        il.name = "il"
        cp.add_illegal_bin_model(il)
        cg.add_coverpoint(cp)
        allc.append(cp)
    if cross:
        opt = CoverageOptionsModel()
        opt.at_least = c.fresh_int("x_at_least", 1)
        cr = CoverpointCrossModel("x", opt)
        for cp in allc[:2]:
            cr.add_coverpoint(cp)
        cg.add_coverpoint(cr)
    cg.finalize()
    for cp in cg.coverpoint_l:
        cp.hit_l = [c.fresh_int("h_" + tag, 0) for _ in cp.hit_l]
        cp.hit_ignore_l = [c.fresh_int("hi_" + tag, 0) for _ in cp.hit_ignore_l]
        cp.hit_illegal_l = [c.fresh_int("hl_" + tag, 0) for _ in cp.hit_illegal_l]
    for cr in cg.cross_l:
        cr.hit_l = [c.fresh_int("hx_" + tag, 0) for _ in cr.hit_l]
    return cg


def _snapshot(cg):
    return [(list(cp.hit_l), list(cp.hit_ignore_l), list(cp.hit_illegal_l), set(cp.unhit_s)) for cp in cg.coverpoint_l] + \
           [(list(cr.hit_l), set(cr.unhit_s)) for cr in cg.cross_l]


@contract("coverage_save_visitor.emission", ["C13"],
          ["vsc.visitors.coverage_save_visitor.CoverageSaveVisitor.save",
           "vsc.visitors.coverage_save_visitor.CoverageSaveVisitor.visit_covergroup",
           "vsc.visitors.coverage_save_visitor.CoverageSaveVisitor.visit_coverpoint",
           "vsc.visitors.coverage_save_visitor.CoverageSaveVisitor.visit_coverpoint_cross",
           "vsc.visitors.coverage_save_visitor.CoverageSaveVisitor.get_cg_instname",
           "vsc.model.coverpoint_model.CoverpointModel.get_bin_name", "vsc.model.coverpoint_model.CoverpointModel.get_bin_hits",
           "vsc.model.coverpoint_cross_model.CoverpointCrossModel.get_bin_name"], save_shapes, replay="none",
          note="save visitor: covergroup types with 1..2 coverpoints (bin models of sizes <= 3, one ignore and one 2-wide illegal bin "
               "model), optional cross, 0..2 instances; hit counts, at_least and weights symbolic")
def c_save(c, cps, ninst, cross):
    import vsc.visitors.coverage_save_visitor as SV
    from ucis import UCIS_IGNOREBIN, UCIS_CVGBIN, UCIS_ILLEGALBIN
    t = _mk_cg(c, "cg_t", cps, cross, "t")
    insts = []
    for i in range(ninst):
        m = _mk_cg(c, "cg_i", cps, cross, "i%d" % i)
        m.type_cg = t
        t.cg_inst_l.append(m)
        insts.append(m)
    before = [_snapshot(x) for x in [t] + insts]
    log = []
    db = GScope("db", "db", log)
    v = SV.CoverageSaveVisitor(db)
    v.save(None, [t])
    after = [_snapshot(x) for x in [t] + insts]
    c.check("saving never alters coverage state (every counter and uncovered set unchanged)",
            And(*[lift(a) == b for A, B in zip(after, before) for ta, tb in zip(A, B)
                  for la, lb in zip(ta[:-1], tb[:-1]) for a, b in zip(la, lb)] +
                [ta[-1] == tb[-1] for A, B in zip(after, before) for ta, tb in zip(A, B)]))
    inst_scope = db.children[0].children if db.children and db.children[0].kind == "du" else []
    top = [s for s in db.children if s.kind == "inst"]
    c.check("one default design-unit / instance scope is created", len(top) == 1)
    cgs = top[0].children if top else []
    c.check("one covergroup scope per type, under the type's own name (not the class name, which several types can share)",
            [s.kind for s in cgs] == ["covergroup"] and cgs[0].name == "cg_t")
    tscope = cgs[0]
    isc = [s for s in tscope.children if s.kind == "coverinstance"]
    c.check("one cover-instance scope per instance of the type, with distinct names",
            len(isc) == ninst and len({s.name for s in isc}) == ninst)

    def check_scope(scope, model, what):
        cps_ = [s for s in scope.children if s.kind == "coverpoint"]
        c.check("%s: one coverpoint scope per coverpoint, in order, with its name and weight" % what,
                And([s.name for s in cps_] == [cp.name for cp in model.coverpoint_l],
                    *[lift(s.args[0]) == cp.options.weight for s, cp in zip(cps_, model.coverpoint_l)]))
        for s, cp in zip(cps_, model.coverpoint_l):
            exp = [(cp.get_bin_name(i), cp.options.at_least, cp.hit_l[i], UCIS_CVGBIN) for i in range(cp.get_n_bins())] + \
                  [(cp.get_ignore_bin_name(i), cp.options.at_least, cp.hit_ignore_l[i], UCIS_IGNOREBIN) for i in range(cp.get_n_ignore_bins())] + \
                  [(cp.get_illegal_bin_name(i), cp.options.at_least, cp.hit_illegal_l[i], UCIS_ILLEGALBIN) for i in range(cp.get_n_illegal_bins())]
            got = s.bins
            c.check("%s: exactly one createBin per regular / ignore / illegal bin, in flat-index order, with name, at_least, "
                    "current hit count and kind" % what,
                    And(len(got) == len(exp), *[And(g[0] == e[0], lift(g[1]) == e[1], lift(g[2]) == e[2], g[4] == e[3])
                                                for g, e in zip(got, exp)]), info=repr(got)[:300])
        xs = [s for s in scope.children if s.kind == "cross"]
        c.check("%s: one cross scope per cross" % what, [s.name for s in xs] == [cr.name for cr in model.cross_l])
        for s, cr in zip(xs, model.cross_l):
            exp = [(cr.get_bin_name(i), cr.options.at_least, cr.hit_l[i]) for i in range(cr.get_n_bins())]
            c.check("%s: exactly one createBin per cross bin with name, at_least and current hit count" % what,
                    And(len(s.bins) == len(exp), *[And(g[0] == e[0], lift(g[1]) == e[1], lift(g[2]) == e[2])
                                                  for g, e in zip(s.bins, exp)]))
            c.check("%s: the cross scope refers to the scopes of its coverpoints" % what,
                    [x.name for x in s.cps] == [cp.name for cp in cr.coverpoints()] and all(x in cps_ for x in s.cps))
    check_scope(tscope, t, "type")
    for s, m in zip(isc, insts):
        check_scope(s, m, "instance")


# ---- bounded: real PyUCIS ------------------------------------------------------------------------------------------
def pop_cases(tier, seed):
    n = 60 if tier == "thorough" else 16
    return [(i,) for i in range(n)]


@contract("report.pyucis_family", ["C13", "C12"],
          ["vsc.get_coverage_report_model", "vsc.get_coverage_report", "vsc.write_coverage_db",
           "vsc.visitors.coverage_save_visitor.CoverageSaveVisitor.save", "vsc.impl.coverage_registry.CoverageRegistry.covergroup_types"],
          pop_cases, kind="bounded",
          bound="seeded populations: 1..2 covergroup classes (one parameterised: 2 shapes), 1..3 instances, coverpoints with "
                "single/array/partitioned bins + ignore/illegal bins + a cross, at_least in {1,2}, weights in {1,2}, 0..12 samples, with and without polling the coverage getters between samples; "
                "report model, text report and UCIS XML (re-read with lxml) compared with the in-memory getters")
def c_pyucis(c, k):
    import vsc
    import tempfile
    import os
    from lxml import etree
    from vsc.impl.coverage_registry import CoverageRegistry
    CoverageRegistry.clear()
    r = random.Random(k)
    al = r.choice([1, 2])
    w1, w2 = r.choice([1, 2]), r.choice([1, 2])

    @vsc.covergroup
    class cgA(object):
        def __init__(self, shape):
            self.with_sample(dict(a=vsc.bit_t(3), b=vsc.bit_t(2)))
            self.options.at_least = al
            bins = {"lo": vsc.bin(0, 1), "arr": vsc.bin_array([], (2, 4))} if shape == 0 else {"p": vsc.bin_array([2], (0, 5))}
            self.cpa = vsc.coverpoint(self.a, bins=bins, ignore_bins={"ig": vsc.bin(7)}, illegal_bins={"il": vsc.bin(6)},
                                      options=dict(weight=w1))
            self.cpb = vsc.coverpoint(self.b, bins={"v": vsc.bin_array([], (0, 3))}, options=dict(weight=w2))
            self.x = vsc.cross([self.cpa, self.cpb])

    @vsc.covergroup
    class cgB(object):
        def __init__(self):
            self.with_sample(dict(a=vsc.bit_t(2)))
            self.cp = vsc.coverpoint(self.a)
    insts = [cgA(r.choice([0, 1])) for _ in range(r.choice([1, 2, 3]))]
    if r.random() < 0.5:
        insts.append(cgB())
    poll = k % 2 == 1              # every other population polls the coverage getters between samples (cached percentages)
    for _ in range(r.randint(0, 12)):
        i = r.choice(insts)
        if isinstance(i, cgB):
            i.sample(r.randrange(4))
        else:
            i.sample(r.randrange(8), r.randrange(4))
        if poll:
            for j in insts:
                j.get_inst_coverage()
                j.get_coverage()
                for cp in j.get_model().coverpoint_l:
                    cp.get_coverage()
                    cp.get_inst_coverage()
                for cr in j.get_model().cross_l:
                    cr.get_coverage()

    def mem_cg(m):
        d = {"cps": {}, "crs": {}}
        for cp in m.coverpoint_l:
            d["cps"][cp.name] = {
                "bins": [(cp.get_bin_name(i), cp.get_bin_hits(i)) for i in range(cp.get_n_bins())],
                "ignore": [(cp.get_ignore_bin_name(i), cp.get_ignore_bin_hits(i)) for i in range(cp.get_n_ignore_bins())],
                "illegal": [(cp.get_illegal_bin_name(i), cp.get_illegal_bin_hits(i)) for i in range(cp.get_n_illegal_bins())],
                "cov": cp.get_coverage()}
        for cr in m.cross_l:
            d["crs"][cr.name] = {"bins": [(cr.get_bin_name(i), cr.get_bin_hits(i)) for i in range(cr.get_n_bins())],
                                 "cov": cr.get_coverage()}
        d["cov"] = m.get_inst_coverage()
        return d
    types = CoverageRegistry.inst().covergroup_types()
    before = [(mem_cg(t), [mem_cg(i) for i in t.cg_inst_l]) for t in types]
    rep = vsc.get_coverage_report_model()
    txt = vsc.get_coverage_report(details=True)
    fd, fn = tempfile.mkstemp(suffix=".xml")
    os.close(fd)
    try:
        vsc.write_coverage_db(fn)
        xml = etree.parse(fn)
    finally:
        os.unlink(fn)
    after = [(mem_cg(t), [mem_cg(i) for i in t.cg_inst_l]) for t in types]
    c.check("producing a report and saving never alters coverage state", before == after)
    c.check("the report lists every covergroup type", len(rep.covergroups) == len(types), info="%d vs %d" % (len(rep.covergroups), len(types)))
    for t, rt, (mt, mis) in zip(types, rep.covergroups, before):
        def cmp_cg(rc, mem, what):
            c.check("%s: every coverpoint with its regular / ignore / illegal bins, names and hit counts" % what,
                    [cp.name for cp in rc.coverpoints] == list(mem["cps"]) and
                    all([(b.name, b.count) for b in cp.bins] == mem["cps"][cp.name]["bins"] and
                        [(b.name, b.count) for b in cp.ignore_bins] == mem["cps"][cp.name]["ignore"] and
                        [(b.name, b.count) for b in cp.illegal_bins] == mem["cps"][cp.name]["illegal"] for cp in rc.coverpoints),
                    info=repr([(cp.name, [(b.name, b.count) for b in cp.bins]) for cp in rc.coverpoints])[:400])
            c.check("%s: every cross with its bins, names and hit counts" % what,
                    [cr.name for cr in rc.crosses] == list(mem["crs"]) and
                    all([(b.name, b.count) for b in cr.bins] == mem["crs"][cr.name]["bins"] for cr in rc.crosses))
            c.check("%s: coverpoint / cross percentages agree with get_coverage()" % what,
                    all(abs(cp.coverage - mem["cps"][cp.name]["cov"]) < 1e-6 for cp in rc.coverpoints) and
                    all(abs(cr.coverage - mem["crs"][cr.name]["cov"]) < 1e-6 for cr in rc.crosses),
                    info=repr([(cp.name, cp.coverage, mem["cps"][cp.name]["cov"]) for cp in rc.coverpoints]))
            c.check("%s: covergroup percentage agrees with get_inst_coverage()" % what, abs(rc.coverage - mem["cov"]) < 1e-3,
                    info="%r vs %r" % (rc.coverage, mem["cov"]))
        cmp_cg(rt, mt, "type %s" % t.name)
        c.check("the report lists every instance of the type", len(rt.covergroups) == len(mis))
        for ri, mi in zip(rt.covergroups, mis):
            cmp_cg(ri, mi, "instance")
        for cpn, d in mt["cps"].items():
            for nm, cnt in d["bins"]:
                pass
    # text rendering: every bin name appears with its count in a details report
    ok = True
    for (mt, mis) in before:
        for mem in [mt] + mis:
            for cpn, d in mem["cps"].items():
                ok = ok and cpn in txt and all(nm in txt for nm, _ in d["bins"])
    c.check("text report names every coverpoint and bin", ok)
    # XML re-read: bin names and counts
    ns = {"u": xml.getroot().nsmap.get(None) or xml.getroot().nsmap.get("ucis") or ""}
    names = []
    for el in xml.getroot().iter():
        tag = etree.QName(el).localname
        if tag in ("coverpointBin", "crossBin"):
            nm = el.get("name")
            cnt = None
            for ch in el.iter():
                if etree.QName(ch).localname == "contents":
                    cnt = int(ch.get("coverageCount"))
            names.append((nm, cnt))
    mem_all = []
    for (mt, mis) in before:
        # PyUCIS's XML writer stores one cgInstance element per covergroup *instance*; the type-level record is their merge
        for mem in (mis or [mt]):
            for d in mem["cps"].values():
                mem_all += d["bins"] + d["ignore"] + d["illegal"]
            for d in mem["crs"].values():
                mem_all += d["bins"]
    c.check("UCIS XML re-read: the multiset of (bin name, hit count) over all instances equals the in-memory data",
            sorted(names, key=repr) == sorted(mem_all, key=repr),
            info="xml %d bins, memory %d bins; first diff %r" % (len(names), len(mem_all),
                                                               [x for x in names if x not in mem_all][:3]))
