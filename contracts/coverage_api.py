"""Bounded stand-ins (never counted as proved) for the facade plumbing of C10/C11/C12: the public covergroup
API is driven over an exhaustively enumerated family of small bin specifications and every sample value of the
coverpoint's type; hit counts, bin counts and coverage numbers are compared with the R-COV reference, which is
written here from the property statement and shares no code with pyvsc."""
import itertools
import random
from pyvc.contract import contract


# ---- reference (R-RL / R-COV) -----------------------------------------------------------------------
def spec_values(args):
    s = set()
    for a in args:
        if isinstance(a, (list, tuple)):
            s.update(range(a[0], a[1] + 1))
        else:
            s.add(a)
    return s


def ref_bins(kind, n, args, excl, dom):
    """-> list of value sets, one per regular bin, in order"""
    if kind == "bin":
        s = spec_values(args) - excl
        return [s] if s else []
    if kind == "array":
        L = sorted(spec_values(args) - excl)
    else:                          # auto
        L = sorted(set(dom) - excl)
    N = len(L)
    if N == 0:
        return []
    if n is None or n >= N:
        return [{v} for v in L]
    per = N // n
    out = []
    for j in range(n):
        out.append(set(L[j * per:(j + 1) * per] if j < n - 1 else L[j * per:]))
    return out


def build_cg(vsc, width, signed, bins_spec, ignore, illegal, auto_max, iff_on, at_least=1):
    """bins_spec: list of (name, kind, n, args) in dict order; returns instance"""
    def mk_bins():
        d = {}
        for nm, kind, n, args in bins_spec:
            if kind == "bin":
                d[nm] = vsc.bin(*args)
            else:
                d[nm] = vsc.bin_array([] if n is None else [n], *args)
        return d

    @vsc.covergroup
    class cg(object):
        def __init__(self):
            self.with_sample(dict(a=vsc.int_t(width) if signed else vsc.bit_t(width), g=vsc.bit_t(1)))
            kw = {}
            if bins_spec:
                kw["bins"] = mk_bins()
            if ignore:
                kw["ignore_bins"] = {"ig": vsc.bin(*ignore)}
            if illegal:
                kw["illegal_bins"] = {"il": vsc.bin(*illegal)}
            opts = {"at_least": at_least}
            if auto_max is not None:
                opts["auto_bin_max"] = auto_max
            if iff_on:
                kw["iff"] = self.g
            self.cp = vsc.coverpoint(self.a, options=opts, **kw)
    return cg()


def run_spec(c, vsc, width, signed, bins_spec, ignore, illegal, auto_max, samples, tag):
    from vsc.impl.coverage_registry import CoverageRegistry
    CoverageRegistry.clear()
    dom = range(-(1 << (width - 1)), 1 << (width - 1)) if signed else range(1 << width)
    excl = spec_values(ignore) | spec_values(illegal)
    exp = []
    if bins_spec:
        for nm, kind, n, args in bins_spec:
            exp.extend(ref_bins(kind, n, args, excl, dom))
    else:
        exp = ref_bins("auto", auto_max if auto_max is not None else 64, None, excl, dom)
    iff_on = any(g == 0 for _, g in samples)
    try:
        inst = build_cg(vsc, width, signed, bins_spec, ignore, illegal, auto_max, iff_on)
    except Exception as e:
        if not exp:
            return          # a coverpoint without any bin is outside the property (nothing to count)
        c.check("%s: building the covergroup raises nothing" % tag, False, info=repr(e))
        return
    m = inst.get_model().coverpoint_l[0]
    c.check("%s: number of regular bins" % tag, m.get_n_bins() == len(exp))
    if m.get_n_bins() != len(exp):
        return
    want = [0] * len(exp)
    wig = 0
    wil = 0
    for v, g in samples:
        inst.sample(v, g)
        if g:
            for j, s in enumerate(exp):
                if v in s:
                    want[j] += 1
            if v in spec_values(ignore):
                wig += 1
            if v in spec_values(illegal):
                wil += 1
    got = [m.get_bin_hits(j) for j in range(m.get_n_bins())]
    c.check("%s: every bin's hit count == number of gated-on samples inside its value set" % tag, got == want)
    if ignore:
        c.check("%s: ignore counter" % tag, m.get_n_ignore_bins() == 1 and m.get_ignore_bin_hits(0) == wig)
    if illegal:
        c.check("%s: illegal counter" % tag, m.get_n_illegal_bins() == 1 and m.get_illegal_bin_hits(0) == wil)
    tm = inst.get_model().type_cg.coverpoint_l[0]
    c.check("%s: type-level hits == instance hits (single instance)" % tag,
            [tm.get_bin_hits(j) for j in range(tm.get_n_bins())] == want)
    if want:
        cov = inst.get_inst_coverage()
        exp_cov = 100.0 * sum(1 for x in want if x >= 1) / len(want)
        c.check("%s: coverage == share of covered bins" % tag, abs(cov - exp_cov) < 1e-3)


RANGE_SETS = [
    [(0, 7)], [(1, 3)], [(1, 3), (5, 6)], [(5, 6), (1, 3)], [(1, 4), (3, 6)], [(0, 7), (2, 3)], [(2, 3), (0, 7)],
    [1, 2, 4], [4, 2, 1], [(0, 1), 2, (3, 4)], [(0, 2), (3, 5)], [7], [(1, 2), (2, 5), (5, 7)], [0, (6, 7), 3],
    [(2, 2), (2, 2)], [(0, 3), (0, 1)],
]
EXCL = [[], [2], [(2, 4)], [0, 7], [(0, 7)], [(3, 3), (6, 7)]]


def api_cases(tier, seed):
    r = random.Random(seed)
    cases = []
    for ri, rs in enumerate(RANGE_SETS):
        for n in (None, 1, 2, 3, 4, 5, 8, 9):
            for ei, ex in enumerate(EXCL):
                cases.append(("array", ri, n, ei))
        for ei, ex in enumerate(EXCL):
            cases.append(("bin", ri, None, ei))
    for am in (1, 2, 3, 4, 5, 8, 16, None):
        for ei, ex in enumerate(EXCL):
            for w, s in ((3, False), (3, True), (2, False), (4, False), (1, False)):
                cases.append(("auto", (w, s), am, ei))
    if tier != "thorough":
        r.shuffle(cases)
        keep = [x for x in cases if x[0] == "auto"][:40] + [x for x in cases if x[0] == "bin"][:40] + \
               [x for x in cases if x[0] == "array"][:220]
        cases = keep
    # chunk into groups so that a case = one process task
    out = []
    for i in range(0, len(cases), 25):
        out.append((cases[i:i + 25],))
    return out


@contract("coverage_api.coverpoint_family", ["C10", "C12"],
          ["vsc.coverage.bin.build_cov_model", "vsc.coverage.bin_array.__init__", "vsc.coverage.bin_array.build_cov_model",
           "vsc.coverage.coverpoint.build_cov_model", "vsc.coverage.covergroup",
           "vsc.impl.coverage_registry.CoverageRegistry.register_cg", "vsc.impl.options.Options.create_model"],
          api_cases, kind="bounded",
          bound="coverpoints over 3-bit (also 1,2,4-bit, signed 3-bit) types; 16 range specifications (disjoint / adjacent / "
                "overlapping / nested / unordered) x bin counts {none,1,2,3,4,5,8,9} x 6 ignore/illegal sets; auto-bins with "
                "auto_bin_max in {1,2,3,4,5,8,16,default}; every value of the type sampled twice gated-on and once gated-off; "
                "quick = seeded sub-sample of 300 specifications, thorough = all")
def c_api_family(c, cases):
    import vsc
    for kind, a, n, ei in cases:
        ex = EXCL[ei]
        ig, il = (ex, []) if ei % 2 == 0 else ([], ex)
        if kind == "auto":
            w, s = a
            dom = list(range(-(1 << (w - 1)), 1 << (w - 1))) if s else list(range(1 << w))
            ig2 = [x for x in ig if (x if not isinstance(x, tuple) else x[1]) in dom and (x if not isinstance(x, tuple) else x[0]) in dom]
            il2 = [x for x in il if (x if not isinstance(x, tuple) else x[1]) in dom and (x if not isinstance(x, tuple) else x[0]) in dom]
            samples = [(v, 1) for v in dom] + [(v, 0) for v in dom] + [(v, 1) for v in dom]
            run_spec(c, vsc, w, s, [], ig2, il2, n, samples, "auto w=%d signed=%s max=%s excl=%s" % (w, s, n, ex))
        else:
            rs = RANGE_SETS[a]
            dom = list(range(8))
            samples = [(v, 1) for v in dom] + [(v, 0) for v in dom] + [(v, 1) for v in dom]
            spec = [("b", kind, n, rs)]
            run_spec(c, vsc, 3, False, spec, ig, il, None, samples, "%s n=%s %s excl=%s" % (kind, n, rs, ex))


# ---- C11: crosses through the public API ---------------------------------------------------------------
CP_KINDS = {
    "singles": lambda vsc: {"lo": vsc.bin(0, 1), "hi": vsc.bin((2, 3))},              # 2 bins, value sets {0,1},{2,3}
    "array": lambda vsc: {"v": vsc.bin_array([], (0, 2))},                             # 3 bins {0},{1},{2}
    "coll": lambda vsc: {"p": vsc.bin_array([2], (0, 3)), "q": vsc.bin(3)},            # {0,1},{2,3},{3}: overlapping bins
    "sparse": lambda vsc: {"a": vsc.bin(1), "b": vsc.bin_array([], 2, 3)},             # {1},{2},{3}; 0 misses
    "wild": lambda vsc: {"w0": vsc.wildcard_bin("0b0x"), "w1": vsc.wildcard_bin((3, 3))},  # {0,1},{3}; 2 misses
}
CP_SETS = {
    "singles": [{0, 1}, {2, 3}],
    "array": [{0}, {1}, {2}],
    "coll": [{0, 1}, {2, 3}, {3}],
    "sparse": [{1}, {2}, {3}],
    "wild": [{0, 1}, {3}],
}


def cross_cases(tier, seed):
    ks = list(CP_KINDS)
    out = []
    for k in (2, 3):
        for combo in itertools.product(ks, repeat=k):
            if "coll" in combo and tier != "thorough" and combo.count("coll") > 1:
                continue
            for gates in ((False, False), (True, False), (False, True), (True, True)):
                out.append((list(combo), gates[0], gates[1]))
    if tier != "thorough":
        random.Random(seed).shuffle(out)
        out = out[:60]
    return out


@contract("coverage_api.cross_family", ["C11"],
          ["vsc.coverage.cross.build_cov_model", "vsc.coverage.cross.__init__", "vsc.coverage.covergroup",
           "vsc.model.coverpoint_cross_model.CoverpointCrossModel.sample"], cross_cases, kind="bounded",
          bound="crosses of 2..3 coverpoints over 2-bit sample variables; bin kinds {single bins, bin array, partitioned array + "
                "overlapping single, sparse with misses}; cross iff and first-coverpoint iff on/off; sample sequence = every "
                "value tuple gated-on, then gated-off, then a seeded shuffle (so misses and gated-off samples precede hits)")
def c_cross_family(c, kinds, cross_iff, cp_iff):
    import vsc
    from vsc.impl.coverage_registry import CoverageRegistry
    CoverageRegistry.clear()
    k = len(kinds)

    @vsc.covergroup
    class cg(object):
        def __init__(self):
            d = {"v%d" % i: vsc.bit_t(2) for i in range(k)}
            d["gx"] = vsc.bit_t(1)
            d["gc"] = vsc.bit_t(1)
            self.with_sample(d)
            self.cps = []
            for i, kd in enumerate(kinds):
                kw = {"iff": self.gc} if (cp_iff and i == 0) else {}
                cp = vsc.coverpoint(getattr(self, "v%d" % i), bins=CP_KINDS[kd](vsc), **kw)
                setattr(self, "cp%d" % i, cp)
                self.cps.append(cp)
            kw = {"iff": self.gx} if cross_iff else {}
            self.x = vsc.cross(self.cps, **kw)
    inst = cg()
    m = inst.get_model()
    xm = m.cross_l[0]
    sets = [CP_SETS[kd] for kd in kinds]
    dims = [len(s) for s in sets]
    tot = 1
    for d in dims:
        tot *= d
    c.check("one cross bin per combination of coverpoint bins", xm.get_n_bins() == tot)
    names = [[m.coverpoint_l[i].get_bin_name(j) for j in range(dims[i])] for i in range(k)]
    tuples = list(itertools.product(*[range(d) for d in dims]))
    c.check("cross bins are named and ordered after the coverpoints' bins",
            [xm.get_bin_name(i) for i in range(tot)] == ["<" + ",".join(names[j][t[j]] for j in range(k)) + ">" for t in tuples])
    seq = []
    vals = list(itertools.product(range(4), repeat=k))
    for gx, gc in ((1, 1), (0, 1), (1, 0), (1, 1)):
        vv = list(vals)
        random.Random(len(seq)).shuffle(vv)
        seq.extend([(v, gx, gc) for v in vv[:24]])
    want = [0] * tot
    prev = None
    for v, gx, gc in seq:
        before = [xm.get_bin_hits(i) for i in range(tot)]
        inst.sample(*v, gx, gc)
        after = [xm.get_bin_hits(i) for i in range(tot)]
        active = (gx or not cross_iff) and (gc or not cp_iff)
        hit = []
        if active:
            # the bin a coverpoint "hit": where several bins contain the value the property does not single one out;
            # accept any combination of containing bins, but exactly one cross bin must move
            cands = [[j for j, s in enumerate(sets[i]) if v[i] in s] for i in range(k)]
            if all(cands):
                hit = [tuples.index(t) for t in itertools.product(*cands)]
        delta = [a - b for a, b in zip(after, before)]
        if hit:
            ok = sum(delta) == 1 and all(d in (0, 1) for d in delta) and delta.index(1) in hit
            c.check("joint hit: exactly the cross bin of the hit combination +1", ok,
                    info="sample=%s delta=%s expected one of %s" % ((v, gx, gc), delta, hit))
        else:
            c.check("gated-off or missed sample: no cross bin changes", all(d == 0 for d in delta),
                    info="sample=%s delta=%s" % ((v, gx, gc), delta))


# ---- C12: instances, types, interleavings ------------------------------------------------------------
def agg_cases(tier, seed):
    out = []
    for ninst in (1, 2, 3):
        for shapes in itertools.product((0, 1), repeat=ninst):
            for al in (1, 2):
                for wts in ((1, 1), (1, 3), (3, 1), (0, 1)):
                    out.append((list(shapes), al, list(wts)))
    if tier != "thorough":
        random.Random(seed).shuffle(out)
        out = out[:40]
    return out


@contract("coverage_api.aggregation_family", ["C12"],
          ["vsc.impl.coverage_registry.CoverageRegistry.register_cg", "vsc.model.covergroup_model.CovergroupModel.equals",
           "vsc.model.covergroup_model.CovergroupModel.clone", "vsc.model.covergroup_model.CovergroupModel.sample",
           "vsc.model.covergroup_model.CovergroupModel.get_coverage", "vsc.model.coverpoint_model.CoverpointModel.equals",
           "vsc.model.coverpoint_model.CoverpointModel.clone"], agg_cases, kind="bounded",
          bound="1..3 instances of one covergroup class, each of one of 2 shapes (constructor parameter changes the bins), "
                "at_least in {1,2}, coverpoint weights in {(1,1),(1,3),(3,1),(0,1)}, a seeded interleaving of 12 samples; then one more instance constructed after the sampling")
def c_agg_family(c, shapes, at_least, wts):
    import vsc
    from vsc.impl.coverage_registry import CoverageRegistry
    CoverageRegistry.clear()

    @vsc.covergroup
    class cg(object):
        def __init__(self, shape):
            self.with_sample(dict(a=vsc.bit_t(2), b=vsc.bit_t(2)))
            self.options.at_least = at_least
            ba = {"lo": vsc.bin(0, 1), "hi": vsc.bin(2, 3)} if shape == 0 else {"v": vsc.bin_array([], (0, 3))}
            self.cpa = vsc.coverpoint(self.a, bins=ba, options=dict(weight=wts[0]))
            self.cpb = vsc.coverpoint(self.b, bins={"w": vsc.bin_array([], (0, 1))}, options=dict(weight=wts[1]))
    insts = [cg(s) for s in shapes]
    seta = {0: [{0, 1}, {2, 3}], 1: [{0}, {1}, {2}, {3}]}
    setb = [{0}, {1}]
    r = random.Random(hash((tuple(shapes), at_least, tuple(wts))) & 0xffff)
    hits = [[[0] * len(seta[s]), [0, 0]] for s in shapes]
    types = {}
    for i, s in enumerate(shapes):
        types.setdefault(s, []).append(i)
    tm = [i.get_model().type_cg for i in insts]
    c.check("instances of the same shape share one type model; different shapes form separate types",
            all((tm[i] is tm[j]) == (shapes[i] == shapes[j]) for i in range(len(shapes)) for j in range(len(shapes))))
    c.check("every type is registered exactly once",
            len(CoverageRegistry.inst().covergroup_types()) == len(types))

    def cov_of(hs):
        per = []
        for h in hs:
            per.append(100.0 * sum(1 for x in h if x >= at_least) / len(h))
        tw = wts[0] + wts[1]
        return (per[0] * wts[0] + per[1] * wts[1]) / tw
    last_inst = [0.0] * len(insts)
    last_type = {s: 0.0 for s in types}
    for step in range(12):
        i = r.randrange(len(insts))
        a, b = r.randrange(4), r.randrange(4)
        insts[i].sample(a, b)
        for j, s in enumerate(seta[shapes[i]]):
            if a in s:
                hits[i][0][j] += 1
        for j, s in enumerate(setb):
            if b in s:
                hits[i][1][j] += 1
        for k2, inst in enumerate(insts):
            m = inst.get_model()
            got = [[m.coverpoint_l[q].get_bin_hits(j) for j in range(m.coverpoint_l[q].get_n_bins())] for q in (0, 1)]
            c.check("an instance accumulates only its own samples", got == hits[k2],
                    info="step %d inst %d got %s want %s" % (step, k2, got, hits[k2]))
            ic = inst.get_inst_coverage()
            c.check("instance coverage == weighted share of bins at their at_least threshold; within 0..100; never decreases",
                    abs(ic - cov_of(hits[k2])) < 1e-3 and 0.0 <= ic <= 100.0 and ic >= last_inst[k2] - 1e-9,
                    info="step %d inst %d got %s want %s" % (step, k2, ic, cov_of(hits[k2])))
            last_inst[k2] = ic
        for s, members in types.items():
            t = tm[members[0]]
            got = [[t.coverpoint_l[q].get_bin_hits(j) for j in range(t.coverpoint_l[q].get_n_bins())] for q in (0, 1)]
            want = [[sum(hits[m_][q][j] for m_ in members) for j in range(len(hits[members[0]][q]))] for q in (0, 1)]
            c.check("type hits == bin-wise sum over the instances of that shape", got == want,
                    info="step %d shape %d got %s want %s" % (step, s, got, want))
            tc = insts[members[0]].get_coverage()
            c.check("type coverage == weighted share of type bins at threshold; within 0..100; never decreases; 100 iff all covered",
                    abs(tc - cov_of(want)) < 1e-3 and 0.0 <= tc <= 100.0 and tc >= last_type[s] - 1e-9 and
                    ((tc == 100.0) == all(x >= at_least for q in (0, 1) for x in want[q] if wts[q])),
                    info="step %d shape %d got %s want %s" % (step, s, tc, cov_of(want)))
            last_type[s] = tc
    # an instance constructed AFTER same-shape instances have been sampled joins the type without disturbing its data
    late = cg(shapes[0])
    c.check("a late instance attaches to the existing type of its shape", late.get_model().type_cg is tm[0])
    for s, members in types.items():
        t = tm[members[0]]
        got = [[t.coverpoint_l[q].get_bin_hits(j) for j in range(t.coverpoint_l[q].get_n_bins())] for q in (0, 1)]
        want = [[sum(hits[m_][q][j] for m_ in members) for j in range(len(hits[members[0]][q]))] for q in (0, 1)]
        c.check("constructing a further instance of a shape leaves the type's hits (bin-wise sum of its instances) unchanged",
                got == want, info="shape %d got %s want %s" % (s, got, want))
        tc = insts[members[0]].get_coverage()
        c.check("... and the type coverage does not decrease", abs(tc - cov_of(want)) < 1e-3 and tc >= last_type[s] - 1e-9,
                info="shape %d got %s want %s" % (s, tc, cov_of(want)))
    lm = late.get_model()
    c.check("the late instance starts with no hits of its own",
            all(lm.coverpoint_l[q].get_bin_hits(j) == 0 for q in (0, 1) for j in range(lm.coverpoint_l[q].get_n_bins())))
