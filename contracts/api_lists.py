"""Bounded stand-in (public API, real Boolector) for C04: list constraints hold on exactly the list the user sees."""
import itertools
import random
from pyvc.contract import contract, library_only


def list_cases(tier, seed):
    out = []
    kinds = ["fixed", "randsz"]
    bodies = ["elem_lt", "idx_eq", "idx_arith", "neighbour", "sum", "unique", "in_list", "size_rel", "product"]
    for k in kinds:
        for b in bodies:
            for signed in (False, True):
                out.append((k, b, signed))
    # the same random-size bodies with the constraint on the size stated AFTER the body (statement order must not matter)
    for b in ("sum", "product", "unique", "elem_lt", "size_rel", "idx_eq"):
        for signed in (False, True):
            out.append(("randsz_late", b, signed))
    out += [("objects", "obj_field", False), ("objects", "obj_idx", False), ("enum", "unique", False),
            ("objects_randsz", "obj_idx", False), ("objects_randsz", "obj_field", False)]
    return out


@contract("api_lists.family", ["C04"],
          ["vsc.visitors.array_constraint_builder.ArrayConstraintBuilder.visit_constraint_foreach",
           "vsc.visitors.array_constraint_builder.ArrayConstraintBuilder.visit_field_scalar_array",
           "vsc.visitors.foreach_ref_expander.ForeachRefExpander.expand", "vsc.model.field_array_model.FieldArrayModel.get_sum_expr",
           "vsc.model.field_array_model.FieldArrayModel.get_sum_width", "vsc.model.field_array_model.FieldArrayModel.get_product_expr",
           "vsc.model.expr_array_sum_model.ExprArraySumModel.build", "vsc.model.constraint_unique_model.ConstraintUniqueModel.build",
           "vsc.model.expr_in_model.ExprInModel.build", "vsc.types.list_t.append", "vsc.types.list_t.__len__",
           "vsc.types.list_t.__getitem__", "vsc.types.list_t.__iter__", "vsc.types.list_t.clear", "vsc.types.list_t.size",
           "vsc.constraints.foreach"],
          list_cases, kind="bounded",
          bound="scalar lists (4-bit signed/unsigned elements) of fixed size 0..4 and random size (size in [lo..hi] within 0..4), "
                "object lists (<= 3 elements) and an enum list; 9 foreach/sum/product/unique/membership/size bodies; "
                "histories: 4 calls interleaved with append / clear / assignment; every check evaluated on list(obj.l)")
def c_lists(c, kind, body, signed):
    import vsc
    from vsc.model.solve_failure import SolveFailure
    from vsc.model.rand_state import RandState
    from enum import IntEnum
    W = 4
    lo_t, hi_t = (-8, 7) if signed else (0, 15)
    elem_t = (lambda: vsc.int_t(W)) if signed else (lambda: vsc.bit_t(W))

    class E(IntEnum):
        A = 1
        B = 4
        C = 9

    def check_body(lst, o, tag):
        L = [int(x) for x in lst]
        n = len(L)
        ok = True
        if body == "elem_lt":
            ok = all(x < 5 for x in L)
        elif body == "idx_eq":
            ok = all(L[i] == i + 1 for i in range(n))
        elif body == "idx_arith":
            ok = all(L[i] == ((i * 2 + 1) & 15 if not signed else i * 2 - 3) for i in range(n))
        elif body == "neighbour":
            ok = all(L[i] < L[i + 1] for i in range(n - 1))
        elif body == "sum":
            ok = sum(L) == int(o.t)
        elif body == "product":
            p = 0 if n == 0 else 1
            for x in L:
                p *= x
            ok = (p == int(o.t)) and all(1 <= x <= 3 for x in L)
        elif body == "unique":
            ok = len(set(L)) == n
        elif body == "in_list":
            ok = int(o.t) in L if n else True
        elif body == "size_rel":
            ok = n == int(o.t)
        c.check("C04: the %s constraint holds on exactly the elements the list exposes" % body, ok,
                info="%s list=%r t=%r" % (tag, L, int(o.t) if hasattr(o, "t") else None))
        c.check("C04: len(), size, indexing and iteration agree", n == len(lst) == lst.size and [int(lst[i]) for i in range(n)] == L,
                info="%s len=%d size=%d list=%r" % (tag, len(lst), lst.size, L))
        c.check("C04: elements inside the declared element type", all(lo_t <= x <= hi_t for x in L), info=repr(L))

    late = kind == "randsz_late"
    if late:
        kind = "randsz"
    if kind in ("fixed", "randsz"):
        for (sz_lo, sz_hi) in ([(0, 0), (1, 1), (3, 3), (4, 4)] if kind == "fixed" else [(0, 3), (1, 4), (2, 2), (0, 0)]):
            @vsc.randobj
            class C(object):
                def __init__(self):
                    if kind == "fixed":
                        self.l = vsc.rand_list_t(elem_t(), sz_lo)
                    else:
                        self.l = vsc.randsz_list_t(elem_t())
                    self.t = vsc.rand_int_t(10)

                @vsc.constraint
                def c(self):
                    if kind == "randsz" and not late:
                        self.l.size.inside(vsc.rangelist((sz_lo, sz_hi)))
                    self.body()
                    if kind == "randsz" and late:
                        self.l.size.inside(vsc.rangelist((sz_lo, sz_hi)))

                def body(self):
                    if body == "elem_lt":
                        with vsc.foreach(self.l) as it:
                            it < 5
                    elif body == "idx_eq":
                        with vsc.foreach(self.l, idx=True) as i:
                            self.l[i] == i + 1
                    elif body == "idx_arith":
                        with vsc.foreach(self.l, idx=True, it=True) as (i, it):
                            it == (i * 2 + 1 if not signed else i * 2 - 3)
                    elif body == "neighbour":
                        with vsc.foreach(self.l, idx=True) as i:
                            with vsc.if_then(i > 0):
                                self.l[i] > self.l[i - 1]
                    elif body == "sum":
                        self.l.sum == self.t
                        self.t.inside(vsc.rangelist((0, 12)))
                    elif body == "product":
                        with vsc.foreach(self.l) as it:
                            it.inside(vsc.rangelist((1, 3)))
                        self.l.product == self.t
                    elif body == "unique":
                        vsc.unique(self.l)
                    elif body == "in_list":
                        self.t.inside(self.l)
                    elif body == "size_rel":
                        self.l.size == self.t
            tag = "%s%s[%d..%d] %s signed=%s" % (kind, " size-constraint-last" if late else "", sz_lo, sz_hi, body, signed)
            try:
                o = C()
                expect_len = len(o.l)
                o.set_randstate(RandState.mkFromSeed(sz_lo * 7 + sz_hi))
                hist = ["rand"] * 8 + ["append", "rand", "clear", "rand", "assign", "rand", "rand"]
                for step in hist:
                    if step == "rand":
                        try:
                            o.randomize()
                        except SolveFailure:
                            feasible = True
                            if body == "in_list" and (len(o.l) == 0):
                                feasible = False       # membership in an empty list is unsatisfiable
                            if body == "unique" and kind == "fixed" and len(o.l) > (hi_t - lo_t + 1):
                                feasible = False
                            c.check("C04: a satisfiable list program solves", not feasible, info=tag + " after " + step)
                            continue
                        n = len(o.l)
                        if kind == "fixed":
                            c.check("C04: a fixed-size list keeps its length across a call", n == expect_len, info="%s %d vs %d" % (tag, n, expect_len))
                        else:
                            c.check("C04: a random-size list ends with a length its size constraint admits", sz_lo <= n <= sz_hi,
                                    info="%s len=%d" % (tag, n))
                        check_body(o.l, o, tag)
                    elif step == "append":
                        before = [int(x) for x in o.l]
                        o.l.append(3)
                        c.check("C04: append acts on exactly the exposed list", [int(x) for x in o.l] == before + [3],
                                info="%s before %r after %r" % (tag, before, [int(x) for x in o.l]))
                    elif step == "clear":
                        o.l.clear()
                        c.check("C04: clear empties the exposed list", len(o.l) == 0 and list(o.l) == [])
                    elif step == "assign":
                        o.l = [1, 2]
                        c.check("C04: assignment replaces the exposed list", [int(x) for x in o.l] == [1, 2])
                    expect_len = len(o.l)
            except Exception as e:
                library_only(e)
                c.check("C04: no exception other than SolveFailure", False, info="%s %s: %s" % (tag, type(e).__name__, e))
    elif kind == "objects_randsz":
        @vsc.randobj
        class RItem(object):
            def __init__(self):
                self.v = vsc.rand_bit_t(6)
                self.w = vsc.rand_bit_t(6)

        @vsc.randobj
        class RP(object):
            def __init__(self):
                self.items = vsc.randsz_list_t(RItem())
                for _ in range(5):
                    self.items.append(RItem())

            @vsc.constraint
            def c(self):
                self.items.size.inside(vsc.rangelist((1, 5)))
                if body == "obj_idx":
                    with vsc.foreach(self.items, idx=True) as i:
                        self.items[i].v == i + 10
                else:
                    with vsc.foreach(self.items) as it:
                        it.v > 40
                        it.w < 8
        try:
            o = RP()
            o.set_randstate(RandState.mkFromSeed(5))
            sizes = []
            for call in range(16):
                o.randomize()
                n = len(o.items)
                sizes.append(n)
                xs = [(int(o.items[i].v), int(o.items[i].w)) for i in range(n)]
                c.check("C04: a random-size object list ends with a length its size constraint admits; len/size/iteration agree",
                        1 <= n <= 5 and n == o.items.size and len(list(o.items)) == n, info="sizes %r" % (sizes,))
                ok = all(v == i + 10 for i, (v, w) in enumerate(xs)) if body == "obj_idx" else all(v > 40 and w < 8 for v, w in xs)
                c.check("C04: the foreach body holds for every element of the final random-size object list, call after call", ok,
                        info="call %d sizes %r elems %r" % (call, sizes, xs))
        except Exception as e:
            library_only(e)
            c.check("C04: no exception other than SolveFailure", False, info="objects_randsz %s %s: %s" % (body, type(e).__name__, e))
    elif kind == "objects":
        @vsc.randobj
        class Item(object):
            def __init__(self):
                self.x = vsc.rand_bit_t(4)
                self.y = vsc.rand_bit_t(4)

            @vsc.constraint
            def own(self):
                self.x != self.y

        @vsc.randobj
        class P(object):
            def __init__(self):
                self.items = vsc.rand_list_t(Item())
                for _ in range(3):
                    self.items.append(Item())

            @vsc.constraint
            def c(self):
                if body == "obj_field":
                    with vsc.foreach(self.items) as it:
                        it.x < 6
                        it.y > it.x
                else:
                    with vsc.foreach(self.items, idx=True) as i:
                        self.items[i].x == i + 2
        try:
            o = P()
            for _ in range(3):
                o.randomize()
                xs = [(int(it.x), int(it.y)) for it in o.items]
                c.check("C04: the object list keeps its length", len(o.items) == 3 and len(xs) == 3)
                if body == "obj_field":
                    c.check("C04: foreach over a list of objects holds for every element", all(x < 6 and y > x for x, y in xs), info=repr(xs))
                else:
                    c.check("C04: foreach with index arithmetic over objects holds for every element",
                            all(x == i + 2 for i, (x, y) in enumerate(xs)), info=repr(xs))
                c.check("C04: each element's own constraint block is enforced", all(x != y for x, y in xs), info=repr(xs))
            # clearing / refilling afterwards acts on exactly the exposed list: the objects reached by indexing and by
            # iteration are the ones appended after the clear, and they are the ones the next call solves
            o.items.clear()
            c.check("C04: clear empties the exposed object list", len(o.items) == 0 and [it for it in o.items] == [])
            fresh = [Item() for _ in range(2)]
            for it in fresh:
                o.items.append(it)
            c.check("C04: indexing and iteration expose the objects appended after the clear",
                    len(o.items) == 2 and all(o.items[i] is fresh[i] for i in range(2)) and all(a is b for a, b in zip(o.items, fresh)))
            # assigning one element replaces exactly that element of the exposed list, and the next call solves the new object
            repl = Item()
            o.items[1] = repl
            fresh[1] = repl
            c.check("C04: assigning an element of an object list replaces exactly that element",
                    len(o.items) == 2 and o.items[1] is repl and o.items[0] is fresh[0])
            before = (int(repl.x), int(repl.y))
            ok_solved = False
            for _ in range(4):                   # an element that is really solved changes value over a few calls
                o.randomize()
                ok_solved = ok_solved or (int(repl.x), int(repl.y)) != before
            c.check("C04: the assigned object is the one the next calls solve", ok_solved or body == "obj_idx",
                    info="values stayed %r" % (before,))
            xs = [(int(it.x), int(it.y)) for it in fresh]
            c.check("C04: the next call solves the refilled elements",
                    (all(x < 6 and y > x for x, y in xs) if body == "obj_field" else all(x == i + 2 for i, (x, y) in enumerate(xs)))
                    and all(x != y for x, y in xs), info=repr(xs))
        except Exception as e:
            library_only(e)
            c.check("C04: no exception other than SolveFailure", False, info="objects %s %s: %s" % (body, type(e).__name__, e))
    else:
        @vsc.randobj
        class Q(object):
            def __init__(self):
                self.l = vsc.rand_list_t(vsc.enum_t(E), 3)

            @vsc.constraint
            def c(self):
                vsc.unique(self.l)
        try:
            o = Q()
            for _ in range(3):
                o.randomize()
                L = list(o.l)
                c.check("C04: enum list elements are declared enumerators and unique", len(L) == 3 and len(set(L)) == 3 and all(x in list(E) for x in L),
                        info=repr(L))
                c.check("C04: enum list indexing and iteration agree", [o.l[i] for i in range(3)] == L)
        except Exception as e:
            library_only(e)
            c.check("C04: no exception other than SolveFailure", False, info="enum %s: %s" % (type(e).__name__, e))
