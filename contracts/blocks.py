"""Model-level contracts for C04 (list sum / product / foreach expansion), C06 (inline block hand-over, dynamic references) and
C07 (block enable flags, disabled blocks contribute nothing)."""
import itertools
import z3
from pyvc.contract import contract, widths
from pyvc.sym import And, Or, Not, Implies, Ite, Iff, lift
from pyvc.ghost import patched
from pyvc.ghost_btor import GhostBoolector, Node
from contracts.lowering import CStub, conj, ext


# ---- C04 ------------------------------------------------------------------------------------------------------------------
def sum_cases(tier, seed):
    ws = [1, 4, 8, 32] if tier != "thorough" else [1, 2, 4, 7, 8, 16, 31, 32, 33, 64]
    return [(w, s, n) for w in ws for s in (False, True) for n in (0, 1, 2, 3, 4, 5, 8)]


@contract("field_array.sum_product", ["C04"],
          ["vsc.model.field_array_model.FieldArrayModel.get_sum_expr", "vsc.model.field_array_model.FieldArrayModel.get_sum_width",
           "vsc.model.field_array_model.FieldArrayModel.build_sum_expr", "vsc.model.field_array_model.FieldArrayModel.get_product_expr",
           "vsc.model.field_array_model.FieldArrayModel.build_product_expr", "vsc.model.expr_array_sum_model.ExprArraySumModel.build",
           "vsc.model.expr_array_sum_model.ExprArraySumModel.width"], sum_cases, replay="none",
          note="list sum/product: element widths of the tier x signedness x sizes {0,1,2,3,4,5,8}; element values are solver variables")
def c_sum(c, w, signed, n):
    from vsc.model.field_array_model import FieldArrayModel
    from vsc.model.expr_array_sum_model import ExprArraySumModel
    from vsc.model.expr_array_product_model import ExprArrayProductModel

    class T:
        width = w
    arr = FieldArrayModel("l", T(), True, None, w, signed, True, False)
    for _ in range(n):
        arr.add_field()
    arr.set_used_rand(True, 0)
    bt = GhostBoolector()
    for f in arr.field_l:
        f.build(bt)
    e = ExprArraySumModel(arr)
    node = e.build(bt, -1)
    RW = e.width()
    c.check("sum width >= element width + ceil(log2(size)) (the sum of `size` w-bit values cannot wrap)",
            RW >= w and (1 << (RW - w)) >= max(n, 1))
    NW = node.width
    ideal = z3.BitVecVal(0, NW)
    for f in arr.field_l:
        ideal = ideal + ext(f.var.term, NW, signed)
    c.check("node == sum over exactly the current elements, each extended to the node's width by the list's signedness",
            And(NW >= RW, node.term == ideal))
    # with the width lemma above, n values of w bits sum to less than 2**RW (signed: magnitude below 2**(RW-1)): no wrap
    c.check("no overflow: n * 2**w <= 2**RW (unsigned) / n * 2**(w-1) <= 2**(RW-1) (signed)",
            (n * (1 << (w - 1)) <= (1 << (RW - 1))) if signed else (max(n, 1) * (1 << w) <= (1 << RW)))
    c.check("the node is cached for this solver", e.build(bt, -1) is node)
    bt2 = GhostBoolector()
    for f in arr.field_l:
        f.dispose()
        f.build(bt2)
    n2 = e.build(bt2, -1)
    c.check("cache validity: a cached node is returned only on the solver it was built for", n2.btor is bt2)
    arr.add_field()
    arr.field_l[-1].is_used_rand = True
    arr.field_l[-1].build(bt2)
    arr.sum_expr_btor = None
    n3 = e.build(bt2, -1)
    ideal3 = z3.BitVecVal(0, n3.width)
    for f in arr.field_l:
        ideal3 = ideal3 + ext(f.var.term, n3.width, signed)
    c.check("after the list grew the sum covers exactly the current elements", n3.term == ideal3)
    if w <= 8 and n <= 4:
        p = ExprArrayProductModel(arr)
        pn = p.build(bt2, -1)
        idealp = z3.BitVecVal(1 if len(arr.field_l) else 0, 64)
        for f in arr.field_l:
            idealp = idealp * ext(f.var.term, 64, signed)
        c.check("product node denotes the product of the current elements at 64 bits (0 for an empty list)",
                And(pn.width == 64, pn.term == idealp))


@contract("foreach_ref_expander.expand", ["C04", "C08"],
          ["vsc.visitors.foreach_ref_expander.ForeachRefExpander.expand", "vsc.visitors.foreach_ref_expander.ForeachRefExpander.visit_expr_fieldref",
           "vsc.visitors.foreach_ref_expander.ForeachRefExpander.visit_expr_array_subscript",
           "vsc.visitors.foreach_ref_expander.ForeachRefExpander.visit_expr_indexed_fieldref"],
          lambda tier, seed: [(n, i) for n in (1, 2, 4) for i in range(n)], replay="none")
def c_expander(c, n, i):
    from vsc.visitors.foreach_ref_expander import ForeachRefExpander
    from vsc.model.field_array_model import FieldArrayModel
    from vsc.model.field_scalar_model import FieldScalarModel
    from vsc.model.field_composite_model import FieldCompositeModel
    from vsc.model.expr_fieldref_model import ExprFieldRefModel
    from vsc.model.expr_array_subscript_model import ExprArraySubscriptModel
    from vsc.model.expr_indexed_field_ref_model import ExprIndexedFieldRefModel
    from vsc.model.expr_literal_model import ExprLiteralModel

    class T:
        width = 8
    arr = FieldArrayModel("l", T(), True, None, 8, False, True, False)
    for _ in range(n):
        arr.add_field()
    idx = FieldScalarModel("index", 32, False, False)
    other = FieldScalarModel("other", 8, False, True)
    idx.set_val(i)
    ex = ForeachRefExpander({idx})
    r = ex.expand(ExprFieldRefModel(idx))
    c.check("the index variable is replaced by a literal of its current value", isinstance(r, ExprLiteralModel) and int(r.val()) == i)
    c.check("that literal behaves like the Python integer it stands for (R-EXPR: signed, at least 32 bits), so comparing or "
            "combining it with a signed element stays signed", isinstance(r, ExprLiteralModel) and r.is_signed() is True and r.width() >= 32)
    r = ex.expand(ExprArraySubscriptModel(ExprFieldRefModel(arr), ExprFieldRefModel(idx)))
    c.check("list[index] is replaced by a reference to exactly element field_l[index]", isinstance(r, ExprFieldRefModel) and r.fm is arr.field_l[i])
    c.check("an expression that does not mention the index is left alone", ex.expand(ExprFieldRefModel(other)) is None)
    # list of objects: list[index].field
    oarr = FieldArrayModel("ol", None, False, None, -1, -1, True, False)
    for k in range(n):
        o = FieldCompositeModel("o%d" % k, True)
        o.add_field(FieldScalarModel("x", 8, False, True))
        o.add_field(FieldScalarModel("y", 8, False, True))
        oarr.append(o)
    sub = ExprArraySubscriptModel(ExprFieldRefModel(oarr), ExprFieldRefModel(idx))
    r = ex.expand(ExprIndexedFieldRefModel(sub, [1]))
    c.check("list[index].field is replaced by a reference to that field of exactly element index",
            isinstance(r, ExprFieldRefModel) and r.fm is oarr.field_l[i].field_l[1])


# ---- C07 / C06: blocks ----------------------------------------------------------------------------------------------------------
@contract("constraint_block.enable_flags", ["C07"],
          ["vsc.model.constraint_block_model.ConstraintBlockModel.set_constraint_enabled", "vsc.impl.constraint_proxy.ConstraintProxy.constraint_mode",
           "vsc.constraints.constraint_t.set_model", "vsc.constraints.constraint_t.constraint_mode"],
          lambda tier, seed: [(a, b) for a in (False, True) for b in (False, True)])
def c_enable_flags(c, cls_default, v):
    from vsc.model.constraint_block_model import ConstraintBlockModel
    from vsc.impl.constraint_proxy import ConstraintProxy
    from vsc.constraints import constraint_t
    b1, b2 = ConstraintBlockModel("c"), ConstraintBlockModel("c")
    c.prove("a new block starts enabled", b1.enabled is True and b2.enabled is True)
    ConstraintProxy(b1).constraint_mode(v)
    c.prove("a proxy writes exactly the one block it is bound to", b1.enabled is v and b2.enabled is True)
    ct = constraint_t(lambda s: None)
    ct.enabled = cls_default
    nb = ConstraintBlockModel("c")
    ct.set_model(nb)
    c.prove("set_model seeds the new block's flag from the class-level default and from nothing else",
            nb.enabled is cls_default and b1.enabled is v and b2.enabled is True)


@contract("rand_info_builder.disabled_blocks", ["C07", "C06"],
          ["vsc.model.rand_info_builder.RandInfoBuilder.visit_constraint_block", "vsc.visitors.variable_bound_visitor.VariableBoundVisitor.visit_constraint_block",
           "vsc.model.rand_info_builder.RandInfoBuilder.visit_constraint_dynref", "vsc.model.expr_dynref_model.ExprDynRefModel.build",
           "vsc.model.field_composite_model.FieldCompositeModel.add_dynamic_constraint"],
          lambda tier, seed: [(e1, e2, ref) for e1 in (False, True) for e2 in (False, True) for ref in (False, True)], replay="none")
def c_disabled_blocks(c, en1, en2, ref_dyn):
    from vsc.model.field_composite_model import FieldCompositeModel
    from vsc.model.field_scalar_model import FieldScalarModel
    from vsc.model.constraint_block_model import ConstraintBlockModel
    from vsc.model.constraint_expr_model import ConstraintExprModel
    from vsc.model.expr_bin_model import ExprBinModel
    from vsc.model.expr_fieldref_model import ExprFieldRefModel
    from vsc.model.expr_literal_model import ExprLiteralModel
    from vsc.model.expr_dynref_model import ExprDynRefModel
    from vsc.model.bin_expr_type import BinExprType
    from vsc.model.rand_info_builder import RandInfoBuilder
    from vsc.visitors.variable_bound_visitor import VariableBoundVisitor
    root = FieldCompositeModel("o", True)
    a = root.add_field(FieldScalarModel("a", 8, False, True))
    b = root.add_field(FieldScalarModel("b", 8, False, True))
    d = root.add_field(FieldScalarModel("d", 8, False, True))
    root.set_used_rand(True, 0)

    def lt(f, k):
        return ConstraintExprModel(ExprBinModel(ExprFieldRefModel(f), BinExprType.Lt, ExprLiteralModel(k, False, 8)))
    s1, s1b, s2, sd = lt(a, 10), lt(a, 20), lt(b, 30), lt(d, 40)
    blk1 = ConstraintBlockModel("c1", [s1, s1b])
    blk2 = ConstraintBlockModel("c2", [s2])
    dyn = ConstraintBlockModel("dyn", [sd])
    dyn.is_dynamic = True
    blk1.set_constraint_enabled(en1)
    blk2.set_constraint_enabled(en2)
    root.add_constraint(blk1)
    root.add_constraint(blk2)
    root.add_dynamic_constraint(dyn)
    inline = []
    if ref_dyn:
        inline = [ConstraintBlockModel("inline", [ConstraintExprModel(ExprDynRefModel(dyn))])]
    ri = RandInfoBuilder.build([root], inline, None)
    got = [x for rs in ri.randsets() for x in rs.constraints()]
    want = ([s1, s1b] if en1 else []) + ([s2] if en2 else [])
    c.check("an enabled block contributes all of its top-level statements, a disabled block none",
            all(any(x is w for x in got) for w in want) and not any(x is s for x in got for s in ([] if en1 else [s1, s1b]) + ([] if en2 else [s2])))
    c.check("dynamic blocks are kept apart from always-on blocks", dyn not in root.constraint_model_l and root.constraint_dynamic_model_l == [dyn])
    in_sets = {f for rs in ri.randsets() for f in rs.fields()}
    c.check("an unreferenced dynamic block contributes nothing; a referenced one links its fields into the referencing statement's rand set",
            (d in in_sets) == ref_dyn and (d in ri.unconstrained()) == (not ref_dyn))
    c.check("fields only mentioned by disabled blocks are unconstrained", (a in in_sets) == en1 and (b in in_sets) == en2)
    bv = VariableBoundVisitor()
    bv.process([root], inline)
    c.check("bound inference skips disabled blocks and unreferenced dynamic blocks",
            bv.bound_m[a].domain.range_l == ([[0, 9]] if en1 else [[0, 255]]) and bv.bound_m[b].domain.range_l == ([[0, 29]] if en2 else [[0, 255]]))
    if ref_dyn:
        bt = GhostBoolector()
        d.build(bt)
        n = ExprDynRefModel(dyn).build(bt)
        c.check("a dynamic reference denotes the conjunction of the referenced block's statements (a 1-bit term, so | & ~ compose)",
                And(n.width == 1, n.term == sd.build(bt).term))


@contract("rand_obj.inline_scope", ["C06", "C16"], ["vsc.rand_obj._randobj.__call__"],
          lambda tier, seed: [(f,) for f in ("ok", "solvefail", "body_raises")], replay="none")
def c_inline_scope(c, fault):
    import vsc
    import vsc.rand_obj as RO
    import vsc.impl.ctor as ctor
    import vsc.impl.expr_mode as em
    from vsc.model.solve_failure import SolveFailure
    calls = []

    class R:
        @staticmethod
        def do_randomize(rs, si, fl, cl=None, **kw):
            calls.append((fl, cl, (len(ctor.constraint_scope_stack), len(ctor.expr_l), len(em._expr_mode), len(ctor.srcinfo_mode_s))))
            if fault == "solvefail" and len(calls) == 1:
                raise SolveFailure("solve failure", "d")

    @vsc.randobj
    class C(object):
        def __init__(self):
            self.a = vsc.rand_bit_t(4)

        @vsc.constraint
        def c1(self):
            self.a < 9
    o = C()
    m = o.get_model()
    blocks = list(m.constraint_model_l)
    before = (len(ctor.constraint_scope_stack), len(ctor.expr_l), len(em._expr_mode), len(ctor.srcinfo_mode_s))

    class Boom(Exception):
        pass
    exc = None
    with patched((RO, "Randomizer", R)):
        try:
            with o.randomize_with() as it:
                it.a > 2
                if fault == "body_raises":
                    raise Boom()
        except (SolveFailure, Boom) as e:
            exc = e
        o.randomize()
    after = (len(ctor.constraint_scope_stack), len(ctor.expr_l), len(em._expr_mode), len(ctor.srcinfo_mode_s))
    c.check("scope, expression, expr-mode and srcinfo stacks are back at their entry depth after the with-block, on every exit",
            after == before, info="%r -> %r" % (before, after))
    c.check("the stacks are already balanced when the block is handed to the solve", calls[0][2] == before)
    c.check("the popped inline block (holding the block's statements) is passed to that call only",
            calls[0][1] is not None and len(calls[0][1]) == 1 and calls[0][1][0].name == "inline" and len(calls[0][1][0].constraint_l) == 1
            and calls[1][1] is None)
    c.check("frame: the object's own constraint blocks are unchanged", m.constraint_model_l == blocks)
    c.check("the failure propagates to the caller", (exc is None) == (fault == "ok"))


# ---- foreach expansion preserves the lowering of every statement / expression kind --------------------------------------------
EXPANSION_KINDS = ("bin_elem_idx", "partselect_elem", "partselect_field_of_elem", "unary", "in_range", "unique_elem_scalar",
                   "unique_two_fields", "soft", "implies", "if_else", "nested_bin", "elem_field_vs_scalar", "dynref_of_elem",
                   "arith_with_idx", "dist_weight_by_index")
_OBJ_KINDS = ("partselect_field_of_elem", "unique_two_fields", "elem_field_vs_scalar", "dynref_of_elem")


@contract("array_constraint_builder.expansion_preserves_lowering", ["C04", "C01", "C08", "C06", "C15"],
          ["vsc.visitors.array_constraint_builder.ArrayConstraintBuilder.visit_constraint_foreach",
           "vsc.visitors.constraint_copy_builder.ConstraintCopyBuilder.visit_expr_partselect",
           "vsc.visitors.constraint_copy_builder.ConstraintCopyBuilder.visit_constraint_unique",
           "vsc.visitors.constraint_copy_builder.ConstraintCopyBuilder.visit_expr_bin",
           "vsc.visitors.constraint_copy_builder.ConstraintCopyBuilder.visit_expr_unary",
           "vsc.visitors.constraint_copy_builder.ConstraintCopyBuilder.visit_expr_in",
           "vsc.visitors.constraint_copy_builder.ConstraintCopyBuilder.visit_constraint_soft",
           "vsc.visitors.constraint_copy_builder.ConstraintCopyBuilder.visit_constraint_implies",
           "vsc.visitors.constraint_copy_builder.ConstraintCopyBuilder.visit_constraint_if_else",
           "vsc.visitors.constraint_copy_builder.ConstraintCopyBuilder.visit_expr_indexed_dynref",
           "vsc.visitors.constraint_copy_builder.ConstraintCopyBuilder.visit_constraint_dist",
           "vsc.visitors.constraint_copy_builder.ConstraintCopyBuilder.visit_dist_weight",
           "vsc.visitors.foreach_ref_expander.ForeachRefExpander.expand",
           "vsc.visitors.foreach_ref_expander.ForeachRefExpander.visit_expr_fieldref"],
          lambda tier, seed: [(k, n, k in _OBJ_KINDS, sg) for k in EXPANSION_KINDS for n in (1, 3)
                              for sg in ((False,) if k in _OBJ_KINDS or k == "dist_weight_by_index" else (False, True))],
          replay="none",
          note="foreach expansion: 15 statement / expression kinds that mention the loop index or the element (comparison and "
               "arithmetic with the index, part-select of the element / of a field of the element, ~, in, unique, soft, implies, "
               "if/else, nested arithmetic, element field, dynamic constraint of the element, dist with an index-dependent weight) "
               "over signed and unsigned scalar lists and object lists of 1 and 3 elements. Obligation: the expansion has one copy "
               "of the body per element, and the copy for element j lowers to exactly the term of the REFERENCE body for j, which "
               "is written with a direct reference to element j and the index as the integer j (R-EXPR: a signed 32-bit literal)")
def c_expansion(c, kind, n, objs, signed):
    from vsc.model.field_array_model import FieldArrayModel
    from vsc.model.field_scalar_model import FieldScalarModel
    from vsc.model.field_composite_model import FieldCompositeModel
    from vsc.model.constraint_block_model import ConstraintBlockModel
    from vsc.model.constraint_foreach_model import ConstraintForeachModel
    from vsc.model.constraint_expr_model import ConstraintExprModel
    from vsc.model.constraint_soft_model import ConstraintSoftModel
    from vsc.model.constraint_implies_model import ConstraintImpliesModel
    from vsc.model.constraint_if_else_model import ConstraintIfElseModel
    from vsc.model.constraint_scope_model import ConstraintScopeModel
    from vsc.model.constraint_unique_model import ConstraintUniqueModel
    from vsc.model.constraint_dist_model import ConstraintDistModel
    from vsc.model.dist_weight_expr_model import DistWeightExprModel
    from vsc.model.constraint_override_model import ConstraintOverrideModel
    from vsc.model.expr_bin_model import ExprBinModel
    from vsc.model.expr_unary_model import ExprUnaryModel
    from vsc.model.unary_expr_type import UnaryExprType
    from vsc.model.expr_partselect_model import ExprPartselectModel
    from vsc.model.expr_in_model import ExprInModel
    from vsc.model.expr_rangelist_model import ExprRangelistModel
    from vsc.model.expr_range_model import ExprRangeModel
    from vsc.model.expr_fieldref_model import ExprFieldRefModel
    from vsc.model.expr_literal_model import ExprLiteralModel
    from vsc.model.expr_array_subscript_model import ExprArraySubscriptModel
    from vsc.model.expr_indexed_field_ref_model import ExprIndexedFieldRefModel
    from vsc.model.expr_indexed_dynref_model import ExprIndexedDynRefModel
    from vsc.model.expr_dynref_model import ExprDynRefModel
    from vsc.model.bin_expr_type import BinExprType
    from vsc.visitors.array_constraint_builder import ArrayConstraintBuilder
    from vsc.visitors.variable_bound_visitor import VariableBoundVisitor
    from pyvc.ghost_btor import GhostBoolector
    root = FieldCompositeModel("o", True)
    a = root.add_field(FieldScalarModel("a", 8, signed, True))
    if objs:
        arr = root.add_field(FieldArrayModel("l", None, False, None, -1, -1, True, False))
        for k in range(n):
            e = FieldCompositeModel("e%d" % k, True)
            e.add_field(FieldScalarModel("x", 8, False, True))
            e.add_field(FieldScalarModel("y", 8, False, True))
            dyn = ConstraintBlockModel("d", [ConstraintExprModel(ExprBinModel(ExprFieldRefModel(e.field_l[0]), BinExprType.Lt,
                                                                              ExprLiteralModel(5, False, 8)))])
            dyn.is_dynamic = True
            e.add_dynamic_constraint(dyn)
            arr.append(e)
    else:
        class T:
            width = 8
        arr = root.add_field(FieldArrayModel("l", T(), True, None, 8, signed, True, False))
        for _ in range(n):
            arr.add_field()

    class TW:
        width = 8
    wl = root.add_field(FieldArrayModel("wl", TW(), True, None, 8, False, False, False))      # non-random weights, one per element
    for k in range(n):
        wl.add_field().set_val([3, 0, 5][k])
    fe = ConstraintForeachModel(ExprFieldRefModel(arr))
    A = ExprFieldRefModel(a)

    def lit(v, w=32):
        return ExprLiteralModel(v, False, w)

    def mk_body(I, EL, fld, dynref, W):
        """the foreach body as a function of: the index expression, the element, its fields, its dynamic constraint, its weight"""
        if kind == "bin_elem_idx":
            return [ConstraintExprModel(ExprBinModel(EL, BinExprType.Gt, I))]
        if kind == "arith_with_idx":
            return [ConstraintExprModel(ExprBinModel(ExprBinModel(EL, BinExprType.Add, lit(1)), BinExprType.Gt, ExprBinModel(I, BinExprType.Sub, A)))]
        if kind == "partselect_elem":
            return [ConstraintExprModel(ExprBinModel(ExprPartselectModel(EL, lit(7), lit(4)), BinExprType.Eq, lit(5)))]
        if kind == "partselect_field_of_elem":
            return [ConstraintExprModel(ExprBinModel(ExprPartselectModel(fld(0), lit(3), lit(0)), BinExprType.Eq, lit(5)))]
        if kind == "unary":
            return [ConstraintExprModel(ExprUnaryModel(UnaryExprType.Not, ExprBinModel(EL, BinExprType.Eq, I)))]
        if kind == "in_range":
            return [ConstraintExprModel(ExprInModel(EL, ExprRangelistModel([ExprRangeModel(I, lit(9)), lit(200)])))]
        if kind == "unique_elem_scalar":
            return [ConstraintUniqueModel([EL, A])]
        if kind == "unique_two_fields":
            return [ConstraintUniqueModel([fld(0), fld(1)])]
        if kind == "soft":
            return [ConstraintSoftModel(ExprBinModel(EL, BinExprType.Eq, I))]
        if kind == "implies":
            return [ConstraintImpliesModel(ExprBinModel(A, BinExprType.Eq, I), [ConstraintExprModel(ExprBinModel(EL, BinExprType.Lt, lit(7)))])]
        if kind == "if_else":
            return [ConstraintIfElseModel(ExprBinModel(A, BinExprType.Gt, I),
                                          ConstraintScopeModel([ConstraintExprModel(ExprBinModel(EL, BinExprType.Lt, lit(7)))]),
                                          ConstraintScopeModel([ConstraintExprModel(ExprBinModel(EL, BinExprType.Gt, lit(70)))]))]
        if kind == "nested_bin":
            return [ConstraintExprModel(ExprBinModel(ExprBinModel(EL, BinExprType.Add, ExprBinModel(I, BinExprType.Mul, lit(2))), BinExprType.Le, A))]
        if kind == "elem_field_vs_scalar":
            return [ConstraintExprModel(ExprBinModel(fld(1), BinExprType.Ne, ExprBinModel(A, BinExprType.Add, I)))]
        if kind == "dist_weight_by_index":
            return [ConstraintDistModel(EL, [DistWeightExprModel(lit(1), None, W), DistWeightExprModel(lit(2), lit(4), lit(1))])]
        return [ConstraintExprModel(dynref)]
    I = ExprFieldRefModel(fe.index)
    EL = ExprArraySubscriptModel(ExprFieldRefModel(arr), I)
    body = mk_body(I, EL, lambda j_: ExprIndexedFieldRefModel(EL, [j_]), ExprIndexedDynRefModel(EL, 0) if objs else None,
                   ExprArraySubscriptModel(ExprFieldRefModel(wl), I))
    fe.constraint_l.extend(body)
    blk = ConstraintBlockModel("c", [fe])
    root.add_constraint(blk)
    root.set_used_rand(True, 0)
    bt = GhostBoolector()
    a.build(bt)
    for e in arr.field_l:
        if objs:
            for f in e.field_l:
                f.build(bt)
        else:
            e.build(bt)
    for f in wl.field_l:
        f.is_used_rand = False
        f.build(bt)
    soft = kind == "soft"
    # the reference: the same body written for element j directly, the index being the integer j
    refs = []
    for j in range(n):
        ej = arr.field_l[j]
        refs.append(mk_body(ExprLiteralModel(j, True, 32), ExprFieldRefModel(ej),
                            (lambda ej_: (lambda k_: ExprFieldRefModel(ej_.field_l[k_])))(ej),
                            ExprDynRefModel(ej.constraint_dynamic_model_l[0]) if objs else None,
                            ExprFieldRefModel(wl.field_l[j])))
    bv = VariableBoundVisitor()
    bv.process([root], [], False)
    ArrayConstraintBuilder.build(root, bv.bound_m)
    ov = blk.constraint_l[0]
    c.check("the foreach statement is overridden for this call by its expansion", isinstance(ov, ConstraintOverrideModel) and ov.orig_constraint is fe)
    exp = list(ov.new_constraint.constraint_l)
    c.check("the expansion holds one copy of the body per element of the list", len(exp) == n * len(body), info="%d statements" % len(exp))
    fe.index.set_val(n + 5)            # a stale index must not matter to the copies
    for j in range(n):
        for s_, st in enumerate(body):
            cp = exp[j * len(body) + s_]
            rf = refs[j][s_]
            c.check("the copy is a statement of the same kind as the original", type(cp) is type(st))
            if kind == "dist_weight_by_index":
                ok = (isinstance(cp, ConstraintDistModel) and cp.lhs.build(bt).term is rf.lhs.build(bt).term and len(cp.weights) == 2
                      and int(cp.weights[0].weight.val()) == int(rf.weights[0].weight.val())
                      and int(cp.weights[0].rng_lhs.val()) == 1 and cp.weights[0].rng_rhs is None
                      and int(cp.weights[1].rng_lhs.val()) == 2 and int(cp.weights[1].rng_rhs.val()) == 4 and int(cp.weights[1].weight.val()) == 1)
                c.check("C15: the dist copy for element j is on element j, with the weights the index selects for j", ok,
                        info="j=%d weight=%r want %r" % (j, cp.weights[0].weight.val() if isinstance(cp, ConstraintDistModel) else None,
                                                         rf.weights[0].weight.val()))
                continue
            got = cp.build(bt, soft) if soft else cp.build(bt)
            w = rf.build(bt, soft) if soft else rf.build(bt)
            c.check("the copy for element j lowers to the term of the reference body for j (direct element reference, index as "
                    "the integer j) for all values", got is not None and w is not None and got.width == w.width and got.term == w.term,
                    info="kind=%s j=%d signed=%s copy=%s" % (kind, j, signed, type(cp).__name__))
