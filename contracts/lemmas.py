"""Meta-lemmas discharged by Lean 4 + Mathlib (thorough tier): they are independent of pyvsc's code and connect the
per-function contracts to the property statements (maximality of the greedy soft choice, C05; interval tiling of the
weighted walk, C15)."""
import os
import subprocess
from pyvc.contract import contract

HERE = os.path.join(os.path.dirname(os.path.dirname(os.path.abspath(__file__))), "lemmas")


def _lean(c, fn, thms):
    p = os.path.join(HERE, fn)
    src = open(p).read()
    c.check("no sorry/admit/axiom in %s" % fn, not any(w in src for w in ("sorry", "admit", "axiom ")))
    c.check("%s states %s" % (fn, ", ".join(thms)), all(("theorem " + t) in src for t in thms))
    r = subprocess.run(["lean", p], capture_output=True, text=True, timeout=1800)
    c.check("lean accepts %s (exit 0, no error)" % fn, r.returncode == 0 and "error" not in r.stdout,
            info=(r.stdout + r.stderr)[-1500:])


@contract("lemma.greedy_maximal.lean", ["C05"], [], lambda tier, seed: [()] if tier == "thorough" else [], replay="none",
          note="Lean 4 / Mathlib: greedy_subset, greedy_sat, greedy_maximal for any anti-monotone sat predicate (thorough tier)")
def c_greedy(c):
    _lean(c, "Greedy.lean", ["greedy_subset", "greedy_sat", "greedy_maximal"])


@contract("lemma.walk_tiling.lean", ["C15"], [], lambda tier, seed: [()] if tier == "thorough" else [], replay="none",
          note="Lean 4 / Mathlib: sel_spec (walk selects j iff P_j < r <= P_j + w_j), sel_weight_pos (thorough tier)")
def c_tiling(c):
    _lean(c, "Tiling.lean", ["sel_spec", "sel_weight_pos"])
