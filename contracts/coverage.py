"""R-COV contracts (C10, C11, C12): bin sample methods, coverpoint index space and event counting, cross
sampling, covergroup sampling order / type propagation, coverage arithmetic."""
import itertools
import operator
from pyvc.contract import contract
from pyvc.sym import And, Or, Not, Implies, Ite, Iff, SymInt, SymBool, lift
from contracts.rangelist import member, fresh_ranges
import z3


class CpStub:
    """ghost coverpoint: the value source of a bin model and the sink of its coverage events"""

    def __init__(self, val):
        self.val = val
        self.ev = []

    def get_val(self):
        return self.val

    def coverage_ev(self, idx, bin_type):
        self.ev.append((idx, bin_type))


def _bin_post(c, b, cp, inset, base, off, what):
    """exactly one coverage_ev(base+off, bin_type) iff value in set; hit_bin_idx == off or -1; no other effect"""
    from vsc.model.coverpoint_bin_type import CoverpointBinType
    hit = len(cp.ev) == 1
    c.prove(what + ": at most one coverage event per sample", len(cp.ev) <= 1)
    c.prove(what + ": event <=> value in the bin's set", Iff(inset, hit))
    if hit:
        c.prove(what + ": event carries flat index base+offset and the bin's type",
                And(cp.ev[0][0] == base + off, cp.ev[0][1] is b.bin_type))
        c.prove(what + ": hit marker == offset", lift(b.hit_bin_idx) == off)
    else:
        c.prove(what + ": hit marker == -1 on a miss", lift(b.hit_bin_idx) == -1)


def _types(tier, seed):
    return [("Bins",), ("Ignore",), ("Illegal",)]


@contract("bin.single_range.sample", ["C10", "C11"],
          ["vsc.model.coverpoint_bin_single_range_model.CoverpointBinSingleRangeModel.sample"], _types)
def c_range_sample(c, bt):
    from vsc.model.coverpoint_bin_single_range_model import CoverpointBinSingleRangeModel
    from vsc.model.coverpoint_bin_type import CoverpointBinType
    lo, hi, v, base = c.fresh_int("lo"), c.fresh_int("hi"), c.fresh_int("v"), c.fresh_int("base", 0)
    b = CoverpointBinSingleRangeModel("b", lo, hi)
    b.set_bin_type(CoverpointBinType[bt])
    b.cp = cp = CpStub(v)
    b.bin_idx_base = base
    b.hit_bin_idx = c.fresh_int("stale", -1)        # stale marker from an earlier sample
    b.sample()
    _bin_post(c, b, cp, And(v >= lo, v <= hi), base, 0, "range bin")


@contract("bin.single_val.sample", ["C10", "C11"],
          ["vsc.model.coverpoint_bin_single_val_model.CoverpointBinSingleValModel.sample"], _types)
def c_val_sample(c, bt):
    from vsc.model.coverpoint_bin_single_val_model import CoverpointBinSingleValModel
    from vsc.model.coverpoint_bin_type import CoverpointBinType
    t, v, base = c.fresh_int("t"), c.fresh_int("v"), c.fresh_int("base", 0)
    b = CoverpointBinSingleValModel("b", t)
    b.set_bin_type(CoverpointBinType[bt])
    b.cp = cp = CpStub(v)
    b.bin_idx_base = base
    b.hit_bin_idx = c.fresh_int("stale", -1)
    b.sample()
    _bin_post(c, b, cp, v == t, base, 0, "value bin")


@contract("bin.enum.sample", ["C10", "C11"],
          ["vsc.model.coverpoint_bin_enum_model.CoverpointBinEnumModel.sample"], _types)
def c_enum_sample(c, bt):
    from vsc.model.coverpoint_bin_enum_model import CoverpointBinEnumModel
    from vsc.model.coverpoint_bin_type import CoverpointBinType
    t, v, base = c.fresh_int("t"), c.fresh_int("v"), c.fresh_int("base", 0)
    b = CoverpointBinEnumModel("b", t)
    b.set_bin_type(CoverpointBinType[bt])
    b.cp = cp = CpStub(v)
    b.bin_idx_base = base
    b.hit_bin_idx = c.fresh_int("stale", -1)
    b.sample()
    _bin_post(c, b, cp, v == t, base, 0, "enum bin")


@contract("bin.single_bag.sample", ["C10", "C11"],
          ["vsc.model.coverpoint_bin_single_bag_model.CoverpointBinSingleBagModel.sample",
           "vsc.model.rangelist_model.RangelistModel.__contains__"],
          lambda tier, seed: [(bt, k) for bt in ("Bins", "Ignore", "Illegal") for k in (1, 2, 3, 4)])
def c_bag_sample(c, bt, k):
    from vsc.model.coverpoint_bin_single_bag_model import CoverpointBinSingleBagModel
    from vsc.model.rangelist_model import RangelistModel
    from vsc.model.coverpoint_bin_type import CoverpointBinType
    from contracts.rangelist import ascending_lo
    rs = fresh_ranges(c, k)
    c.assume(ascending_lo(rs))           # established by bin.build_cov_model / mk_collection (their postconditions)
    v, base = c.fresh_int("v"), c.fresh_int("base", 0)
    b = CoverpointBinSingleBagModel("b", RangelistModel([[lo, hi] for lo, hi in rs]))
    b.set_bin_type(CoverpointBinType[bt])
    b.cp = cp = CpStub(v)
    b.bin_idx_base = base
    b.hit_bin_idx = c.fresh_int("stale", -1)
    b.sample()
    _bin_post(c, b, cp, member(v, rs), base, 0, "bag bin")


@contract("bin.array.sample", ["C10", "C11"],
          ["vsc.model.coverpoint_bin_array_model.CoverpointBinArrayModel.sample",
           "vsc.model.coverpoint_bin_array_model.CoverpointBinArrayModel.get_n_bins",
           "vsc.model.coverpoint_bin_array_model.CoverpointBinArrayModel.finalize"], _types)
def c_array_sample(c, bt):
    from vsc.model.coverpoint_bin_array_model import CoverpointBinArrayModel
    from vsc.model.coverpoint_bin_type import CoverpointBinType
    lo, hi, v, base = c.fresh_int("lo"), c.fresh_int("hi"), c.fresh_int("v"), c.fresh_int("base", 0)
    c.assume(lo <= hi)
    b = CoverpointBinArrayModel("b", lo, hi)
    b.set_bin_type(CoverpointBinType[bt])
    b.cp = cp = CpStub(v)
    b.bin_idx_base = base
    b.hit_bin_idx = c.fresh_int("stale", -1)
    b.sample()
    _bin_post(c, b, cp, And(v >= lo, v <= hi), base, v - lo, "array bin")
    c.prove("array bin: one bin per value", b.get_n_bins() == hi - lo + 1)
    if len(cp.ev) == 1:
        c.prove("array bin: event index inside [base, base+n_bins)",
                And(cp.ev[0][0] >= base, cp.ev[0][0] < base + b.get_n_bins()))


class ChildStub:
    """ghost child bin of a collection: its sample() sets a chosen hit marker"""

    def __init__(self, n, hit, log):
        self.n = n
        self.hit = hit
        self.hit_bin_idx = -7
        self.log = log

    def sample(self):
        self.log.append(self)
        self.hit_bin_idx = self.hit

    def get_n_bins(self):
        return self.n


@contract("bin.collection.sample", ["C10", "C11"],
          ["vsc.model.coverpoint_bin_collection_model.CoverpointBinCollectionModel.sample"],
          lambda tier, seed: [(k,) for k in (1, 2, 3, 4)])
def c_collection_sample(c, k):
    from vsc.model.coverpoint_bin_collection_model import CoverpointBinCollectionModel
    col = CoverpointBinCollectionModel("b")
    log = []
    ns, hs = [], []
    for i in range(k):
        n = c.fresh_int("n", 1)
        h = c.fresh_int("h", -1)
        c.assume(h < n)
        ns.append(n)
        hs.append(h)
        col.add_bin(ChildStub(n, h, log))
    # the children partition a value list (mk_collection / bin_array contract): at most one of them is hit
    c.assume(And(*[Or(hs[i] == -1, hs[j] == -1) for i in range(k) for j in range(i + 1, k)]))
    col.hit_bin_idx = c.fresh_int("stale", -1)
    col.sample()
    c.prove("every child sampled exactly once, in order", [id(x) for x in log] == [id(x) for x in col.bin_l])
    want = lift(-1)
    off = lift(0)
    for i in range(k):
        want = Ite(hs[i] != -1, off + hs[i], want)
        off = off + ns[i]
    c.prove("collection hit marker == offset of the hit child + its local index, or -1",
            lift(col.hit_bin_idx) == want)


# ---- CoverpointModel --------------------------------------------------------------------------------
class BinStub:
    def __init__(self, n, log=None):
        self.n = n
        self.base = None
        self.parent = None
        self.bin_type = None
        self.log = log if log is not None else []
        self.hit_bin_idx = -1

    def clone(self):
        return BinStub(self.n)

    def finalize(self, base):
        self.base = base
        return self.n

    def get_n_bins(self):
        return self.n

    def set_bin_type(self, t):
        self.bin_type = t

    def sample(self):
        self.log.append(self)

    def hit_idx(self):
        return self.hit_bin_idx

    def get_bin_name(self, i):
        return "%s[%d]" % (self.name, i)


class CgStub:
    def __init__(self):
        self.ev = []
        self.type_cg = None

    def coverage_ev(self, cp, idx):
        self.ev.append((cp, idx))


def _shapes(tier, seed, maxn=3, maxk=3):
    out = []
    for k in range(1, maxk + 1):
        for ns in itertools.product(range(1, maxn + 1), repeat=k):
            if sum(ns) <= 6:
                out.append(list(ns))
    return out


@contract("coverpoint.finalize", ["C10", "C13"],
          ["vsc.model.coverpoint_model.CoverpointModel.finalize", "vsc.model.coverpoint_model.CoverpointModel._get_target_bin",
           "vsc.model.coverpoint_model.CoverpointModel.add_bin_model"],
          lambda tier, seed: [(ns, ig) for ns in _shapes(tier, seed) for ig in ([], [2], [1, 1])],
          kind="proof", note="coverpoint index space: shapes = bin-model sizes summing to <= 6 (concrete), so the "
                             "bijection flat index <-> (bin model, offset) is checked per shape")
def c_cp_finalize(c, ns, ig):
    from vsc.model.coverpoint_model import CoverpointModel
    cp = CoverpointModel(None, "cp", None)
    bs = [cp.add_bin_model(BinStub(n)) for n in ns]
    igs = [cp.add_ignore_bin_model(BinStub(n)) for n in ig]
    ils = [cp.add_illegal_bin_model(BinStub(n)) for n in ig]
    cp.finalize()
    tot = sum(ns)
    c.prove("n_bins == sum of the bin models' sizes", cp.get_n_bins() == tot)
    c.prove("bases are the prefix sums", [b.base for b in bs] == [sum(ns[:i]) for i in range(len(ns))])
    c.prove("ignore/illegal bins have their own index spaces from 0",
            [b.base for b in igs] == [sum(ig[:i]) for i in range(len(ig))] and
            [b.base for b in ils] == [sum(ig[:i]) for i in range(len(ig))] and
            cp.get_n_ignore_bins() == sum(ig) and cp.get_n_illegal_bins() == sum(ig))
    c.prove("hit counters start at zero, every bin unhit",
            cp.hit_l == [0] * tot and cp.unhit_s == set(range(tot)) and cp.hit_ignore_l == [0] * sum(ig))
    flat = []
    for i in range(tot):
        b, off = cp._get_target_bin(i)
        flat.append((bs.index(b), off))
    c.prove("flat index i <-> (bin model, offset) is the lexicographic bijection",
            flat == [(j, o) for j, n in enumerate(ns) for o in range(n)])


@contract("coverpoint.coverage_ev", ["C10", "C12", "C13"],
          ["vsc.model.coverpoint_model.CoverpointModel.coverage_ev", "vsc.model.coverpoint_model.CoverpointModel.get_bin_hits"],
          lambda tier, seed: [(n, bt) for n in (1, 2, 3, 4) for bt in ("Bins", "Ignore", "Illegal")])
def c_cp_coverage_ev(c, n, bt):
    from vsc.model.coverpoint_model import CoverpointModel
    from vsc.model.coverpoint_bin_type import CoverpointBinType
    cp = CoverpointModel(None, "cp", None)
    cp.add_bin_model(BinStub(n))
    cp.add_ignore_bin_model(BinStub(n))
    cp.add_illegal_bin_model(BinStub(n))
    cp.parent = cg = CgStub()
    cp.finalize()
    al = c.fresh_int("at_least", 1)
    cp.options.at_least = al
    # arbitrary reachable state: counters >= 0, unhit set consistent with the counters (representation invariant)
    h0 = [c.fresh_int("hit", 0) for _ in range(n)]
    g0 = [c.fresh_int("ign", 0) for _ in range(n)]
    l0 = [c.fresh_int("ill", 0) for _ in range(n)]
    cp.hit_l = list(h0)
    cp.hit_ignore_l = list(g0)
    cp.hit_illegal_l = list(l0)
    unhit = set()
    for i in range(n):
        if bool(h0[i] < al):
            unhit.add(i)
    cp.unhit_s = set(unhit)
    cp.coverage_calc_valid = True
    i = c.fresh_int("idx", 0, n - 1)
    cp.coverage_ev(i, CoverpointBinType[bt])
    tgt = {"Bins": (cp.hit_l, h0), "Ignore": (cp.hit_ignore_l, g0), "Illegal": (cp.hit_illegal_l, l0)}
    for nm, (now, old) in tgt.items():
        for j in range(n):
            inc = And(i == j, nm == bt)
            c.prove("counter (%s,%d) +1 iff it is the addressed one, else unchanged" % (nm, j),
                    lift(now[j]) == Ite(inc, old[j] + 1, old[j]))
    c.prove("unhit set == {i : hits_i < at_least} (representation invariant kept)",
            And(*[Iff(lift(cp.hit_l[j]) < al, j in cp.unhit_s) for j in range(n)]))
    if bt == "Bins":
        c.prove("cached coverage invalidated by a regular-bin event", cp.coverage_calc_valid is False)


@contract("coverpoint.sample", ["C10", "C11"],
          ["vsc.model.coverpoint_model.CoverpointModel.sample", "vsc.model.coverpoint_model.CoverpointModel.get_val",
           "vsc.model.coverpoint_model.CoverpointModel.reset",
           "vsc.model.coverpoint_model.CoverpointModel.set_target_value_cache"],
          lambda tier, seed: [(m,) for m in ("none", "iff", "cached_true", "cached_false")])
def c_cp_sample(c, mode):
    from vsc.model.coverpoint_model import CoverpointModel

    class Iff_:
        def __init__(self, v):
            self.v = v
            self.calls = 0

        def val(self):
            self.calls += 1
            return self.v

    class Tgt:
        def __init__(self, v):
            self.v = v
            self.calls = 0

        def val(self):
            self.calls += 1
            return self.v

    iffv = c.fresh_int("iff")
    iff = Iff_(iffv) if mode != "none" else None
    tv = c.fresh_int("tv")
    tgt = Tgt(tv)
    cp = CoverpointModel(tgt, "cp", None, iff)
    log = []
    bs = [cp.add_bin_model(BinStub(1, log)), cp.add_bin_model(BinStub(2, log))]
    ig = [cp.add_ignore_bin_model(BinStub(1, log))]
    il = [cp.add_illegal_bin_model(BinStub(1, log))]
    cp.finalize()
    if mode == "cached_true":
        cp.set_target_value_cache(c.fresh_int("cache"), True)
    if mode == "cached_false":
        cp.set_target_value_cache(c.fresh_int("cache"), False)
    cp.sample()
    if mode == "none":
        gate = True
    elif mode == "iff":
        gate = bool(iffv != 0)
    else:
        gate = mode == "cached_true"
    if gate:
        c.prove("iff true: every regular, ignore and illegal bin model sampled exactly once",
                [id(x) for x in log] == [id(x) for x in bs + ig + il])
    else:
        c.prove("iff false: no bin model is sampled (no effect)", log == [])
    if mode == "iff":
        c.prove("iff evaluated exactly once", iff.calls == 1)
        cp.sample()
        c.prove("iff not re-evaluated within the same sample (cache valid until reset)", iff.calls == 1)
        cp.reset()
        c.prove("reset drops the iff cache and the value cache",
                cp.iff_val_cache_valid is False and cp.target_val_cache_valid is False)
    if mode in ("cached_true", "cached_false"):
        c.prove("a propagated iff result is used as is (iff expression not evaluated)", iff.calls == 0)
        v1 = cp.get_val()
        c.prove("a propagated value is used as is (target expression not evaluated)", tgt.calls == 0)
    else:
        v1 = cp.get_val()
        v2 = cp.get_val()
        c.prove("get_val evaluates the target once per sample and returns its value",
                And(tgt.calls == 1, lift(v1) == tv, lift(v2) == tv))


# ---- coverage arithmetic (C12) ----------------------------------------------------------------------
def _close(a, b):
    return abs(a - b) < 1e-9


@contract("coverpoint.get_inst_coverage", ["C12"],
          ["vsc.model.coverpoint_model.CoverpointModel.get_inst_coverage", "vsc.model.coverpoint_model.CoverpointModel.get_coverage"],
          lambda tier, seed: [(n,) for n in range(1, 8)], kind="bounded",
          bound="n_bins 1..7, every subset of covered bins (float arithmetic is concrete)")
def c_cp_cov(c, n):
    from vsc.model.coverpoint_model import CoverpointModel
    for k in range(n + 1):
        for unhit in itertools.combinations(range(n), n - k):
            cp = CoverpointModel(None, "cp", None)
            cp.add_bin_model(BinStub(n))
            cp.parent = CgStub()
            cp.finalize()
            cp.unhit_s = set(unhit)
            cov = cp.get_inst_coverage()
            c.prove("coverage == 100 * covered / n_bins", _close(cov, 100.0 * k / n))
            c.prove("coverage within 0..100 and == 100 exactly when every bin is covered",
                    0.0 <= cov <= 100.0 and ((cov == 100.0) == (k == n)))
            c.prove("get_coverage() of a coverpoint == its instance coverage", cp.get_coverage() == cov)


class ItemStub:
    def __init__(self, cov, w):
        self.cov = cov
        self.options = type("O", (), {})()
        self.options.weight = w
        self.parent = None

    def get_coverage(self):
        return self.cov


@contract("covergroup.get_inst_coverage", ["C12"],
          ["vsc.model.covergroup_model.CovergroupModel.get_inst_coverage", "vsc.model.covergroup_model.CovergroupModel.coverage_ev"],
          lambda tier, seed: [(k,) for k in (1, 2, 3)], kind="bounded",
          bound="1..3 items, coverage values {0,25,50,100}, weights {0,1,3} (float arithmetic is concrete)")
def c_cg_cov(c, k):
    from vsc.model.covergroup_model import CovergroupModel
    from vsc.model.coverpoint_model import CoverpointModel
    from vsc.model.coverpoint_cross_model import CoverpointCrossModel
    for covs in itertools.product((0.0, 25.0, 50.0, 100.0), repeat=k):
        for ws in itertools.product((0, 1, 3), repeat=k):
            cg = CovergroupModel("cg")
            for i, (cv, w) in enumerate(zip(covs, ws)):
                it = ItemStub(cv, w)
                (cg.coverpoint_l if i % 2 == 0 else cg.cross_l).append(it)
            got = cg.get_inst_coverage()
            tw = sum(ws)
            if tw == 0:
                continue        # the weighted mean is undefined; nothing is claimed
            want = sum(cv * w for cv, w in zip(covs, ws)) / tw
            c.prove("covergroup coverage == weighted mean of its items", abs(got - want) < 1e-3)
            c.prove("covergroup coverage within 0..100; 100 iff every weighted item is 100",
                    0.0 <= got <= 100.0 and ((got == 100.0) == all(cv == 100.0 for cv, w in zip(covs, ws) if w)))
            cg.coverage_ev(None, 0)
            c.prove("an event invalidates the cached covergroup coverage", cg.coverage_calc_valid is False)


# ---- cross (C11) ------------------------------------------------------------------------------------
class CpForCross:
    """ghost coverpoint as seen by a cross: iff cache + per-bin-model hit markers"""

    def __init__(self, name, sizes):
        self.name = name
        self.sizes = sizes
        self.bin_model_l = [BinStub(n) for n in sizes]
        for j, b in enumerate(self.bin_model_l):
            b.name = "%s%d" % (name, j)
        self.iff_val_cache = True

    def get_n_bins(self):
        return sum(self.sizes)

    def get_bin_name(self, i):
        for j, n in enumerate(self.sizes):
            if i < n:
                return "%s_%d_%d" % (self.name, j, i)
            i -= n

    def equals(self, o):
        return True


def _cross_shapes(tier, seed):
    out = []
    cands = [[1], [2], [1, 2], [2, 1], [3]] if tier != "thorough" else [[1], [2], [3], [1, 1], [1, 2], [2, 1], [2, 2], [1, 3]]
    for k in (2, 3):
        for sh in itertools.product(cands, repeat=k):
            tot = 1
            for s in sh:
                tot *= sum(s)
            if tot <= (12 if tier != "thorough" else 36):
                out.append(([list(s) for s in sh],))
    return out


@contract("cross.finalize", ["C11", "C13"],
          ["vsc.model.coverpoint_cross_model.CoverpointCrossModel.finalize",
           "vsc.model.coverpoint_cross_model.CoverpointCrossModel._build_hit_map",
           "vsc.model.coverpoint_cross_model.CoverpointCrossModel.get_bin_name"], _cross_shapes,
          note="cross shapes: 2..3 coverpoints, each 1..2 bin models, product of bin counts <= 12 (quick) / 36 (thorough)")
def c_cross_finalize(c, shape):
    from vsc.model.coverpoint_cross_model import CoverpointCrossModel
    cr = CoverpointCrossModel("x", None)
    cps = [CpForCross("cp%d" % i, s) for i, s in enumerate(shape)]
    for cp in cps:
        cr.add_coverpoint(cp)
    cr.finalize()
    dims = [cp.get_n_bins() for cp in cps]
    tot = 1
    for d in dims:
        tot *= d
    tuples = list(itertools.product(*[range(d) for d in dims]))
    c.prove("one cross bin per combination", cr.get_n_bins() == tot and len(cr.hit_l) == tot and cr.hit_l == [0] * tot)
    c.prove("tuple -> index is the lexicographic rank; index -> tuple its inverse",
            all(cr.tuple2idx_m[t] == i and cr.idx2tuple_m[i] == t for i, t in enumerate(tuples))
            and len(cr.tuple2idx_m) == tot and len(cr.idx2tuple_m) == tot)
    c.prove("cross bin name = <names of the component bins>",
            all(cr.get_bin_name(i) == "<" + ",".join(cps[j].get_bin_name(t[j]) for j in range(len(cps))) + ">"
                for i, t in enumerate(tuples)))
    cr.finalize()
    c.prove("finalize is idempotent", cr.get_n_bins() == tot and len(cr.hit_l) == tot)


@contract("cross.sample", ["C11"], ["vsc.model.coverpoint_cross_model.CoverpointCrossModel.sample"], _cross_shapes,
          max_paths=60000)
def c_cross_sample(c, shape):
    from vsc.model.coverpoint_cross_model import CoverpointCrossModel

    class Iff_:
        def __init__(self, v):
            self.v = v

        def val(self):
            return self.v

    iffv = c.fresh_int("xiff", 0, 1)
    cr = CoverpointCrossModel("x", type("O", (), {"at_least": 1})(), Iff_(iffv))
    cps = [CpForCross("cp%d" % i, s) for i, s in enumerate(shape)]
    for cp in cps:
        cr.add_coverpoint(cp)
    cr.parent = cg = CgStub()
    cr.finalize()
    tot = cr.get_n_bins()
    old = [c.fresh_int("h", 0) for _ in range(tot)]
    cr.hit_l = list(old)
    # component state after the coverpoints were sampled: iff caches and hit markers; a coverpoint's bin models
    # partition its values, so at most one bin model of a coverpoint carries a hit marker
    flat = []
    cpiff = []
    for cp in cps:
        g = c.fresh_int("cpiff", 0, 1)
        cp.iff_val_cache = bool(g != 0)
        cpiff.append(cp.iff_val_cache)
        which = c.fresh_int("which", -1, len(cp.sizes) - 1)
        w = operator.index(which)            # complete case split
        f = None
        off = 0
        for j, b in enumerate(cp.bin_model_l):
            if j == w:
                h = c.fresh_int("hit", 0, cp.sizes[j] - 1)
                b.hit_bin_idx = h
                f = off + h
            else:
                b.hit_bin_idx = -1
            off += cp.sizes[j]
        flat.append(f)
    cr.sample()
    active = bool(iffv != 0) and all(cpiff) and all(f is not None for f in flat)
    dims = [cp.get_n_bins() for cp in cps]
    if active:
        rk = lift(0)
        for f, d in zip(flat, dims):
            rk = rk * d + f
        for i in range(tot):
            c.prove("active sample: exactly the cross bin of the hit combination +1, others unchanged",
                    lift(cr.hit_l[i]) == Ite(rk == i, old[i] + 1, old[i]))
    else:
        c.prove("inactive sample (cross iff false, a coverpoint iff false, or a coverpoint missed): no cross bin changes",
                And(*[lift(cr.hit_l[i]) == old[i] for i in range(tot)]))


@contract("covergroup.sample", ["C11", "C12"], ["vsc.model.covergroup_model.CovergroupModel.sample"],
          lambda tier, seed: [(ncp, ncr, t) for ncp in (1, 2, 3) for ncr in (0, 1, 2) for t in (False, True)])
def c_cg_sample(c, ncp, ncr, has_type):
    from vsc.model.covergroup_model import CovergroupModel
    log = []

    class It:
        def __init__(self, nm):
            self.nm = nm
            self.iff_val_cache = c.fresh_int("iffc")
            self.target_val_cache = c.fresh_int("valc")
            self.got = None

        def sample(self):
            log.append(("sample", self.nm))

        def reset(self):
            log.append(("reset", self.nm))

        def set_target_value_cache(self, *a):
            log.append(("cache", self.nm))
            self.got = a

    def mk(prefix):
        cg = CovergroupModel("cg")
        cg.coverpoint_l = [It(prefix + "cp%d" % i) for i in range(ncp)]
        cg.cross_l = [It(prefix + "cr%d" % i) for i in range(ncr)]
        return cg
    inst = mk("i.")
    if has_type:
        t = mk("t.")
        inst.type_cg = t
        other = mk("o.")
        other.type_cg = t
    inst.sample()
    exp = [("sample", x.nm) for x in inst.coverpoint_l] + [("sample", x.nm) for x in inst.cross_l]
    if has_type:
        exp += [("cache", x.nm) for x in t.cross_l] + [("cache", x.nm) for x in t.coverpoint_l]
        exp += [("sample", x.nm) for x in t.coverpoint_l] + [("sample", x.nm) for x in t.cross_l]
        exp += [("reset", x.nm) for x in t.coverpoint_l] + [("reset", x.nm) for x in t.cross_l]
    exp += [("reset", x.nm) for x in inst.coverpoint_l] + [("reset", x.nm) for x in inst.cross_l]
    c.prove("order: coverpoints, crosses, propagate to the type, sample the type once, reset everything; "
            "no other instance is touched", log == exp)
    if has_type:
        for i in range(ncp):
            a = t.coverpoint_l[i].got
            c.prove("type coverpoint receives exactly this sample's value and iff result",
                    a is not None and len(a) == 2 and a[0] is inst.coverpoint_l[i].target_val_cache
                    and a[1] is inst.coverpoint_l[i].iff_val_cache)
        for i in range(ncr):
            a = t.cross_l[i].got
            c.prove("type cross receives exactly this sample's iff result",
                    a is not None and len(a) == 1 and a[0] is inst.cross_l[i].iff_val_cache)


# ---- shapes: equals / clone / registry matching (C12) ------------------------------------------------------------------
def _bin_variants():
    from vsc.model.coverpoint_bin_array_model import CoverpointBinArrayModel as Arr
    from vsc.model.coverpoint_bin_single_val_model import CoverpointBinSingleValModel as Val
    from vsc.model.coverpoint_bin_single_range_model import CoverpointBinSingleRangeModel as Rng
    from vsc.model.coverpoint_bin_single_bag_model import CoverpointBinSingleBagModel as Bag
    from vsc.model.coverpoint_bin_collection_model import CoverpointBinCollectionModel as Col
    from vsc.model.coverpoint_bin_enum_model import CoverpointBinEnumModel as En
    from vsc.model.rangelist_model import RangelistModel as RL

    def col(name, parts):
        c_ = Col(name)
        for p in parts:
            c_.add_bin(p())
        return c_
    V = [
        ("arr a 0..3", lambda: Arr("a", 0, 3)), ("arr a 0..4", lambda: Arr("a", 0, 4)), ("arr a 1..3", lambda: Arr("a", 1, 3)),
        ("arr b 0..3", lambda: Arr("b", 0, 3)),
        ("val a 1", lambda: Val("a", 1)), ("val a 2", lambda: Val("a", 2)),
        ("rng a 0..3", lambda: Rng("a", 0, 3)), ("rng a 0..4", lambda: Rng("a", 0, 4)),
        ("bag a [0..1,3..3]", lambda: Bag("a", RL([[0, 1], [3, 3]]))), ("bag a [0..1]", lambda: Bag("a", RL([[0, 1]]))),
        ("bag a [0..1,3..4]", lambda: Bag("a", RL([[0, 1], [3, 4]]))),
        ("col a [v1,v2,v4]", lambda: col("a", [lambda: Val("a[0]", 1), lambda: Val("a[1]", 2), lambda: Val("a[2]", 4)])),
        ("col a [v1,v2,v4,v8]", lambda: col("a", [lambda: Val("a[0]", 1), lambda: Val("a[1]", 2), lambda: Val("a[2]", 4), lambda: Val("a[3]", 8)])),
        ("col a [v1,v2]", lambda: col("a", [lambda: Val("a[0]", 1), lambda: Val("a[1]", 2)])),
        ("enum A 1", lambda: En("A", 1)), ("enum A 2", lambda: En("A", 2)),
    ]
    return V


def _cp_variants():
    V = _bin_variants()
    keys = [k for k, _ in V]
    out = []
    for i in range(len(V)):
        out.append(((keys[i],), (), ()))
    out += [((keys[0], keys[4]), (), ()), ((keys[0],), (keys[4],), ()), ((keys[0],), (), (keys[4],)),
            ((keys[0], keys[4], keys[5]), (), ()), ((keys[0],), (keys[4], keys[5]), ()), ((keys[4], keys[0]), (), ()),
            ((keys[0],), (keys[5],), ()), ((keys[0],), (), (keys[5],))]
    return out


def _mk_cp(desc, name="cp"):
    from vsc.model.coverpoint_model import CoverpointModel
    V = dict(_bin_variants())
    cp = CoverpointModel(None, name, None)
    for k in desc[0]:
        cp.add_bin_model(V[k]())
    for k in desc[1]:
        cp.add_ignore_bin_model(V[k]())
    for k in desc[2]:
        cp.add_illegal_bin_model(V[k]())
    return cp


@contract("coverage_options.clone", ["C12", "C13"],
          ["vsc.model.coverage_options_model.CoverageOptionsModel.clone", "vsc.model.coverpoint_model.CoverpointModel.clone",
           "vsc.model.coverpoint_cross_model.CoverpointCrossModel.clone", "vsc.model.covergroup_model.CovergroupModel.clone"],
          lambda tier, seed: [(k,) for k in ("options", "coverpoint", "cross", "covergroup")],
          note="the type model is a clone of the first instance: every option that enters the coverage arithmetic (weight, "
               "at_least, goal, auto_bin_max, comment) must reach the clone with its value - symbolic integers - and the clone must "
               "own its options object")
def c_options_clone(c, kind):
    from vsc.model.coverage_options_model import CoverageOptionsModel
    from vsc.model.coverpoint_model import CoverpointModel
    from vsc.model.coverpoint_cross_model import CoverpointCrossModel
    from vsc.model.covergroup_model import CovergroupModel

    def mk(tag):
        o = CoverageOptionsModel()
        o.weight, o.goal, o.at_least, o.auto_bin_max = (c.fresh_int(tag + "w"), c.fresh_int(tag + "g"), c.fresh_int(tag + "al"),
                                                        c.fresh_int(tag + "abm"))
        o.comment = "note-" + tag
        return o

    def same(tag, a, b):
        c.prove("C12: %s: the clone owns its options object" % tag, a is not b)
        c.prove("C12: %s: weight, at_least, goal, auto_bin_max and comment reach the clone unchanged" % tag,
                And(lift(b.weight == a.weight), lift(b.at_least == a.at_least), lift(b.goal == a.goal),
                    lift(b.auto_bin_max == a.auto_bin_max)))
        c.prove("C12: %s: comment copied" % tag, b.comment == a.comment)
    if kind == "options":
        o = mk("o")
        same("options", o, o.clone())
        return
    cp1 = CoverpointModel(None, "cp1", mk("p1"))
    cp1.add_bin_model(BinStub(2))
    cp2 = CoverpointModel(None, "cp2", mk("p2"))
    cp2.add_bin_model(BinStub(3))
    if kind == "coverpoint":
        same("coverpoint", cp1.options, cp1.clone().options)
        return
    cr = CoverpointCrossModel("cr", mk("x"))
    cr.add_coverpoint(cp1)
    cr.add_coverpoint(cp2)
    if kind == "cross":
        m = {cp1: cp1.clone(), cp2: cp2.clone()}
        cl = cr.clone(m)
        same("cross", cr.options, cl.options)
        c.prove("C12: the cloned cross refers to the cloned coverpoints, in order", cl.coverpoint_model_l == [m[cp1], m[cp2]])
        return
    cg = CovergroupModel("cg")
    cg.add_coverpoint(cp1)
    cg.add_coverpoint(cp2)
    cg.add_coverpoint(cr)
    cl = cg.clone()
    c.prove("C12: the type clone has one coverpoint / cross per coverpoint / cross of the instance",
            len(cl.coverpoint_l) == 2 and len(cl.cross_l) == 1)
    same("covergroup/cp1", cp1.options, cl.coverpoint_l[0].options)
    same("covergroup/cp2", cp2.options, cl.coverpoint_l[1].options)
    same("covergroup/cross", cr.options, cl.cross_l[0].options)
    c.prove("C12: the cloned cross samples the clone's coverpoints, not the instance's",
            cl.cross_l[0].coverpoint_model_l == cl.coverpoint_l)


@contract("coverage.equals_clone", ["C12"],
          ["vsc.model.coverpoint_model.CoverpointModel.equals", "vsc.model.coverpoint_model.CoverpointModel.clone",
           "vsc.model.covergroup_model.CovergroupModel.equals", "vsc.model.covergroup_model.CovergroupModel.clone",
           "vsc.model.coverpoint_cross_model.CoverpointCrossModel.equals",
           "vsc.model.coverpoint_bin_collection_model.CoverpointBinCollectionModel.equals",
           "vsc.model.coverpoint_bin_array_model.CoverpointBinArrayModel.equals",
           "vsc.model.coverpoint_bin_single_bag_model.CoverpointBinSingleBagModel.equals",
           "vsc.model.coverpoint_bin_single_range_model.CoverpointBinSingleRangeModel.equals",
           "vsc.model.coverpoint_bin_single_val_model.CoverpointBinSingleValModel.equals",
           "vsc.model.rangelist_model.RangelistModel.equals", "vsc.impl.coverage_registry.CoverageRegistry.register_cg"],
          lambda tier, seed: [(i,) for i in range(len(_cp_variants()))], kind="bounded",
          bound="24 coverpoint shapes built from 16 bin-model variants (array / value / range / bag / collection / enum bins differing in "
                "bounds, names and length; regular, ignore and illegal lists of length 0..3, also permuted); every ordered pair compared")
def c_equals_clone(c, i):
    from vsc.model.covergroup_model import CovergroupModel
    from vsc.impl.coverage_registry import CoverageRegistry
    descs = _cp_variants()
    a = _mk_cp(descs[i])
    for j, dj in enumerate(descs):
        b = _mk_cp(dj)
        c.check("two coverpoints compare equal iff they have the same set of bins (kinds, bounds, order; regular / ignore / illegal)",
                bool(a.equals(b)) == (i == j), info="%r vs %r -> %s" % (descs[i], dj, a.equals(b)))
    cl = a.clone()
    a2 = _mk_cp(descs[i])
    c.check("a clone has the same shape as its source", bool(cl.equals(a2)) and bool(a2.equals(cl)))
    cl.parent = CgStub()
    cl.finalize()
    c.check("a clone starts with zero hits", all(h == 0 for h in cl.hit_l + cl.hit_ignore_l + cl.hit_illegal_l))
    # registry: an instance attaches to the type of its own shape, any other shape gets its own type
    CoverageRegistry.clear()
    rg = CoverageRegistry.inst()
    types = {}
    order = [i, (i + 1) % len(descs), i, (i + 5) % len(descs), (i + 1) % len(descs)]
    for k in order:
        cg = CovergroupModel("cg")
        cg.add_coverpoint(_mk_cp(descs[k]))
        cg.finalize()
        rg.register_cg(cg)
        types.setdefault(k, cg.type_cg)
        c.check("an instance attaches to the type whose shape equals its own, otherwise a new type is created",
                cg.type_cg is types[k] and all((types[x] is types[k]) == (x == k) for x in types),
                info="shapes %r" % ([descs[x] for x in types],))
    c.check("one registered type per distinct shape", len(rg.covergroup_types()) == len(set(order)))
    CoverageRegistry.clear()
