"""C19 - wildcard bins match exactly the values that agree with the pattern."""
import itertools
import random
from pyvc.contract import contract
from pyvc.sym import And, Or, Not, Implies, Ite, Iff, SymInt, lift
from contracts.coverage import CpStub
from contracts.rangelist import member


@contract("wildcard.single.sample", ["C19", "C11"],
          ["vsc.model.coverpoint_bin_single_wildcard_model.CoverpointBinSingleWildcardModel.sample",
           "vsc.model.wildcard_binspec.WildcardBinspec.__init__"],
          lambda tier, seed: [(k,) for k in (1, 2, 3)], backend="bv",
          note="wildcard sample: 1..3 (value, mask) specs, all symbolic non-negative integers below 2**96 (BV back end)")
def c_wc_sample(c, k):
    from vsc.model.coverpoint_bin_single_wildcard_model import CoverpointBinSingleWildcardModel
    from vsc.model.wildcard_binspec import WildcardBinspec
    specs = []
    for i in range(k):
        specs.append((c.fresh_int("value", 0), c.fresh_int("mask", 0)))
    v = c.fresh_int("v", 0)
    base = c.fresh_int("base", 0, 1000)
    b = CoverpointBinSingleWildcardModel("w", WildcardBinspec(specs))
    b.cp = cp = CpStub(v)
    b.bin_idx_base = base
    b.hit_bin_idx = c.fresh_int("stale", -1, 5)
    b.sample()
    match = Or(*[(v & m) == (val & m) for val, m in specs])
    hit = len(cp.ev) == 1
    c.prove("at most one coverage event", len(cp.ev) <= 1)
    c.prove("hit <=> exists spec: v agrees with value on every mask bit", Iff(match, hit))
    if hit:
        c.prove("event index == bin base; marker == 0", And(cp.ev[0][0] == base, lift(b.hit_bin_idx) == 0))
    else:
        c.prove("marker == -1 on a miss", lift(b.hit_bin_idx) == -1)


BASES = {"0o": (8, 3, "01234567"), "0x": (16, 4, "0123456789abcdefABCDEF"), "0b": (2, 1, "01")}


def step_cases(tier, seed):
    out = []
    for ordinal, pfx in enumerate(("0o", "0x", "0b")):
        B, bits, digs = BASES[pfx]
        for ch in digs + "xX?_":
            out.append((ordinal, pfx, ch))
    return out


@contract("wildcard.str2bin.step", ["C19"], ["vsc.impl.wildcard_bin_factory.WildcardBinFactory.str2bin"], step_cases,
          note="str2bin: each of the three digit loops is cut (pyvc.cut): the loop body of the repository is executed for an "
               "arbitrary accumulated (value, mask) >= 0 and each character of the base's alphabet, proving the fold step; any "
               "pattern length follows by induction. The loop headers (`val[2:]`) and the prefix dispatch are covered by the "
               "bounded whole-function contract wildcard.str2bin.whole.")
def c_str2bin_step(c, ordinal, pfx, ch):
    from vsc.impl.wildcard_bin_factory import WildcardBinFactory
    from pyvc.cut import loop_step
    f = WildcardBinFactory.__dict__["str2bin"].__func__
    r = loop_step(f, ordinal)
    c.prove("anchor: loop %d of str2bin exists and iterates over val[2:]" % ordinal,
            r is not None and r[1].replace(" ", "") == "val[2:]")
    step = r[0]
    B, bits, digs = BASES[pfx]
    value, mask = c.fresh_int("value", 0), c.fresh_int("mask", 0)
    st, ctl, _ = step({"value": value, "mask": mask}, ch)
    c.prove("loop body falls through to the next character", ctl == "next")
    if ch == "_":
        c.prove("'_' is skipped", And(lift(st["value"]) == value, lift(st["mask"]) == mask))
    elif ch in "xX?":
        c.prove("wildcard digit: shifts in %d zero value bits and %d zero mask bits" % (bits, bits),
                And(lift(st["value"]) == value * B, lift(st["mask"]) == mask * B))
    else:
        d = int(ch, B)
        c.prove("digit: shifts in its value and %d one mask bits" % bits,
                And(lift(st["value"]) == value * B + d, lift(st["mask"]) == mask * B + (B - 1)))


def ref_parse(s):
    pfx = s[:2].lower()
    B, bits, digs = BASES[pfx]
    value = mask = 0
    for ch in s[2:]:
        if ch == "_":
            continue
        value <<= bits
        mask <<= bits
        if ch not in "xX?":
            value |= int(ch, B)
            mask |= (1 << bits) - 1
    return value, mask


def whole_cases(tier, seed):
    L = 4 if tier == "thorough" else 3
    out = []
    for pfx, alpha in (("0o", "07x?_3"), ("0x", "0fXa_9?"), ("0b", "01x?_"), ("0B", "01X"), ("0X", "0F?"), ("0O", "17x")):
        out.append((pfx, alpha, L))
    return out


@contract("wildcard.str2bin.whole", ["C19"], ["vsc.impl.wildcard_bin_factory.WildcardBinFactory.str2bin"], whole_cases,
          kind="bounded", bound="every pattern string of length <= 3 (quick) / 4 (thorough) over a 3..7 character alphabet per "
                                "base prefix (0o 0O 0x 0X 0b 0B), compared with an independent reference parser")
def c_str2bin_whole(c, pfx, alpha, L):
    from vsc.impl.wildcard_bin_factory import WildcardBinFactory
    for n in range(0, L + 1):
        for t in itertools.product(alpha, repeat=n):
            s = pfx + "".join(t)
            c.prove("str2bin(s) == reference fold of the digit step from (0,0)", WildcardBinFactory.str2bin(s) == ref_parse(s),
                    info=s)


def mask_cases(tier, seed):
    r = random.Random(seed)
    if tier == "thorough":
        wide = [m for m in range(1 << 9, 1 << 12) if bin(m)[2:].count("0") <= 7]      # <= 7 wildcard bits (<= 128 ranges)
        ms = list(range(1, 1 << 9)) + sorted(r.sample(wide, 300))
    else:
        ms = list(range(1, 1 << 7)) + sorted(r.sample(range(1 << 7, 1 << 10), 40))
    return [(m,) for m in ms]


@contract("wildcard.valmask2binlist", ["C19"], ["vsc.impl.wildcard_bin_factory.WildcardBinFactory.valmask2binlist"],
          mask_cases, max_paths=5000, backend="bv",
          note="valmask2binlist: mask concrete (every mask below 2**7 plus 40 seeded masks below 2**10 quick; every mask below "
               "2**9 plus 300 seeded masks below 2**12 with at most 7 wildcard bits thorough - a bound on the mask width), value a symbolic non-negative "
               "integer below 2**96 (BV back end); pattern width = bit length of the mask (the function has no other width "
               "information)")
def c_valmask(c, mask):
    from vsc.impl.wildcard_bin_factory import WildcardBinFactory
    value = c.fresh_int("value", 0)
    rs = WildcardBinFactory.valmask2binlist(value, mask)
    n = mask.bit_length()
    v = c.fresh_int("v")
    want = And(v >= 0, v < (1 << n), (lift(v) & mask) == (lift(value) & mask))
    c.prove("value set == {v in [0,2**n): v agrees with value on every mask bit} (forall v)", Iff(member(v, rs), want))
    c.prove("ranges ascending, disjoint and non-adjacent",
            And(*([lo <= hi for lo, hi in rs] + [lift(h0) + 1 < l1 for (l0, h0), (l1, h1) in zip(rs, rs[1:])])))


# ---- facade: bounded, exhaustive --------------------------------------------------------------------------
def api_cases(tier, seed):
    nb = 6 if tier == "thorough" else 4
    out = []
    for m in range(0, 1 << nb):
        out.append(("pairs", nb, m))
    for base in ("0b", "0o", "0x"):
        out.append(("strings", nb, base))
    return out


def _matches(v, pats):
    return any((v & m) == (val & m) for val, m in pats)


@contract("wildcard.api_family", ["C19"],
          ["vsc.coverage.wildcard_bin.__init__", "vsc.coverage.wildcard_bin.build_cov_model",
           "vsc.coverage.wildcard_bin_array.__init__", "vsc.coverage.wildcard_bin_array.build_cov_model",
           "vsc.model.coverpoint_bin_single_wildcard_model.CoverpointBinSingleWildcardModel.sample"],
          api_cases, kind="bounded",
          bound="every (value, mask) pair of 4 (quick) / 6 (thorough) bits incl. values with bits outside the mask, as a single "
                "wildcard bin and as a wildcard bin array with counts {none,1,2,3}; two-pattern bins and two-pattern arrays (disjoint / overlapping / contained, both orders); pattern strings in the "
                "three bases with wildcard digits at every position; every sample value of the coverpoint's type")
def c_wc_api(c, kind, nb, arg):
    import vsc
    from vsc.impl.coverage_registry import CoverageRegistry
    dom = range(1 << nb)

    def run(mk_bins, pats, tag, array_n="single"):
        CoverageRegistry.clear()

        @vsc.covergroup
        class cg(object):
            def __init__(self):
                self.with_sample(dict(a=vsc.bit_t(nb)))
                self.cp = vsc.coverpoint(self.a, bins=mk_bins())
        inst = cg()
        m = inst.get_model().coverpoint_l[0]
        L = [v for v in dom if _matches(v, pats)]
        if array_n == "single":
            exp = [set(L)]
        elif array_n is None or array_n >= len(L):
            exp = [{v} for v in L]
        else:
            per = len(L) // array_n
            exp = [set(L[j * per:(j + 1) * per] if j < array_n - 1 else L[j * per:]) for j in range(array_n)]
        c.prove("number of bins (%s)" % tag, m.get_n_bins() == len(exp), info="%s got %d want %d" % (tag, m.get_n_bins(), len(exp)))
        if m.get_n_bins() != len(exp):
            return
        want = [0] * len(exp)
        for v in dom:
            inst.sample(v)
            for j, s in enumerate(exp):
                if v in s:
                    want[j] += 1
        got = [m.get_bin_hits(j) for j in range(m.get_n_bins())]
        c.prove("hit <=> sample agrees with a pattern on every non-wildcard bit (%s)" % tag, got == want,
                info="%s got %s want %s" % (tag, got, want))

    if kind == "pairs":
        mask = arg
        for value in range(1 << nb):
            p = [(value, mask)]
            run(lambda: {"w": vsc.wildcard_bin((value, mask))}, p, "single")
            if mask != 0 and mask.bit_length() == nb:
                # full-width patterns: the array's width equals the coverpoint's width
                for n in (None, 1, 2, 3):
                    run(lambda: {"w": vsc.wildcard_bin_array([] if n is None else [n], (value, mask))}, p,
                        "array", n)
            if value % 5 == 0:
                p2 = [(value, mask), ((value * 3 + 1) % (1 << nb), (mask * 5 + 3) % (1 << nb))]
                run(lambda: {"w": vsc.wildcard_bin(*p2)}, p2, "single two patterns")
            if mask != 0 and mask.bit_length() == nb and value % 3 == 0:
                # two-pattern arrays (both full width): disjoint, overlapping, and one pattern contained in the other
                for m2, v2 in ((mask | 1, value), (mask | 2, value ^ 2), ((mask * 5 + 3) % (1 << nb) | (1 << (nb - 1)), (value * 3 + 1) % (1 << nb))):
                    p3 = [(value, mask), (v2, m2)]
                    for n in (None, 2):
                        run(lambda: {"w": vsc.wildcard_bin_array([] if n is None else [n], *p3)}, p3, "array two patterns", n)
                        run(lambda: {"w": vsc.wildcard_bin_array([] if n is None else [n], p3[1], p3[0])}, p3, "array two patterns", n)
    else:
        base = arg
        B, bits, digs = BASES[base]
        nd = max(1, nb // bits)
        if nd * bits != nb:
            c.prove("base skipped: digit width does not divide the coverpoint width", True)
            return
        alpha = digs[:2] + digs[-1] + "x?"
        for t in itertools.product(alpha, repeat=nd):
            s = base + "".join(t)
            val, msk = ref_parse(s)
            if val >= (1 << nb):
                continue
            run(lambda: {"w": vsc.wildcard_bin(s)}, [(val, msk)], "single string")
            lead = t[0] in "x?"
            run(lambda: {"w": vsc.wildcard_bin_array([], s)}, [(val, msk)],
                "array string leading-wildcard" if lead else "array string", None)
