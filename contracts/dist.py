"""C15 - dist and weighted selection follow their weights (R-WALK), C09 draw routing for these functions."""
import itertools
from pyvc.contract import contract
from pyvc.sym import And, Or, Not, Implies, Ite, Iff, SymInt, SymBool, lift
from pyvc.ghost import GhostRandState, GhostRng, TripWire, patched
import z3


def _lens(tier, seed):
    return [(n,) for n in ((1, 2, 3, 4, 5) if tier == "thorough" else (1, 2, 3, 4))]


@contract("dist.next_target_range.walk", ["C15", "C09"],
          ["vsc.model.constraint_dist_scope_model.ConstraintDistScopeModel.next_target_range"], _lens,
          note="next_target_range: weight lists of length 1..4 (quick) / 5 (thorough) with symbolic positive weights; the walk "
               "loop is additionally cut and its inductive step proved for any length (dist.next_target_range.step)")
def c_next_target_range(c, n):
    from vsc.model.constraint_dist_scope_model import ConstraintDistScopeModel
    import vsc.model.constraint_dist_scope_model as mod
    ws = [c.fresh_int("w", 1) for _ in range(n)]
    idx = [c.fresh_int("idx", 0) for _ in range(n)]
    zero_w = c.fresh_int("zeros", 0, 0)      # zero-weight entries add 0 to total_weight and are not in weight_list
    s = ConstraintDistScopeModel(None)
    s.weight_list = [(w, i) for w, i in zip(ws, idx)]
    tot = lift(0)
    for w in ws:
        tot = tot + w
    s.total_weight = tot + zero_w
    rs = GhostRandState(c)
    log = []
    with patched((mod, "random", TripWire("random", log))) if hasattr(mod, "random") else patched():
        got = s.next_target_range(rs)
    r = rs.rng.draws[0][2] if rs.rng.draws else None
    c.prove("exactly one draw, from the RandState passed in, over [1, total_weight]",
            And(len(rs.rng.draws) == 1, rs.rng.draws[0][0] == 1, lift(rs.rng.draws[0][1]) == s.total_weight))
    P = lift(0)
    cases = []
    for j in range(n):
        cases.append(Implies(And(r > P, r <= P + ws[j]), lift(got) == idx[j]))
        P = P + ws[j]
    c.prove("R-WALK: returns the entry j with P_j < r <= P_j + w_j (so entry j is chosen for exactly w_j of the draws)",
            And(*cases))
    c.prove("target_range records the returned entry", lift(s.target_range) == got)
    # tiling meta-fact for this length: the intervals cover [1, total] without overlap
    P = lift(0)
    ins = []
    for j in range(n):
        ins.append(And(r > P, r <= P + ws[j]))
        P = P + ws[j]
    c.prove("intervals (P_j, P_j+w_j] tile [1, total]: exactly one contains the draw",
            And(Or(*ins), *[Not(And(ins[a], ins[b])) for a in range(n) for b in range(a + 1, n)]))


class _SymWeightList:
    """ghost list of (weight, index) pairs of arbitrary length: element i is (W(i), IDX(i)) for uninterpreted W > 0"""

    def __init__(self, c):
        self.W = z3.Function("W", z3.IntSort(), z3.IntSort())
        self.I = z3.Function("IDX", z3.IntSort(), z3.IntSort())
        self.n = c.fresh_int("n", 1)
        self.c = c

    def __getitem__(self, i):
        iz = lift(i).z
        w = SymInt(self.W(iz))
        self.c.assume(w > 0)
        return (w, SymInt(self.I(iz)))

    def __symlen__(self):
        return self.n


@contract("dist.next_target_range.step", ["C15"],
          ["vsc.model.constraint_dist_scope_model.ConstraintDistScopeModel.next_target_range"],
          lambda tier, seed: [()], replay="none",
          note="cut loop: while-loop 0 of next_target_range; invariant seed_v == r - P(i) > 0 and 0 <= i < n with P the prefix "
               "sum of an uninterpreted positive weight function (any list length)")
def c_next_target_step(c):
    from vsc.model.constraint_dist_scope_model import ConstraintDistScopeModel
    from pyvc.cut import loop_step
    f = ConstraintDistScopeModel.__dict__["next_target_range"]
    ls = loop_step(f, 0)
    c.prove("anchor: the walk is a while loop guarded by i < len(self.weight_list)",
            ls is not None and ls[3]["kind"] == "While" and ls[1].replace(" ", "") == "i<len(self.weight_list)")
    step, header, guard, info = ls
    wl = _SymWeightList(c)
    s = ConstraintDistScopeModel(None)
    s.weight_list = wl
    Pf = z3.Function("P", z3.IntSort(), z3.IntSort())
    i = c.fresh_int("i", 0)
    r = c.fresh_int("r", 1)
    c.assume(i < wl.n)
    Pi = SymInt(Pf(i.z))
    seed_v = r - Pi
    c.assume(seed_v > 0)                                           # invariant at loop head
    c.assume_z3(Pf(i.z + 1) == Pf(i.z) + wl.W(i.z))                 # definition of the prefix sum at i
    g = guard({"i": i, "self": s})
    c.prove("guard holds for i < n", g)
    st, ctl, _ = step({"seed_v": seed_v, "i": i, "self": s})
    Pn = SymInt(Pf(i.z + 1))
    if ctl == "break":
        c.prove("exit by break: P(i) < r <= P(i+1) and i unchanged (entry i is the R-WALK entry)",
                And(r > Pi, r <= Pn, lift(st["i"]) == i))
    else:
        c.prove("continue: invariant re-established for i+1 (seed_v == r - P(i+1) > 0)",
                And(lift(st["i"]) == i + 1, lift(st["seed_v"]) == r - Pn, lift(st["seed_v"]) > 0))


def _ds_cases(tier, seed):
    return [(n,) for n in ((1, 2, 3, 4, 5) if tier == "thorough" else (1, 2, 3, 4))]


@contract("methods.distselect", ["C15"], ["vsc.methods.distselect"], _ds_cases, max_paths=100000,
          note="distselect: weight lists of length 1..4 (quick) / 5 (thorough), weights symbolic >= 0 in any order, total >= 1; "
               "relational two-draw contract: two draws that select the same entry i differ by less than w_i, hence at most w_i "
               "draws select i; the selections partition [1,total] and sum(w)=total, so exactly w_i draws select i")
def c_distselect(c, n):
    import vsc.methods as M
    ws = [c.fresh_int("w", 0) for _ in range(n)]
    tot = lift(0)
    for w in ws:
        tot = tot + w
    c.assume(tot >= 1)
    rng = GhostRng(c)
    with patched((M, "random", rng)):
        a = M.distselect(list(ws))
        b = M.distselect(list(ws))
    (lo1, hi1, r1), (lo2, hi2, r2) = rng.draws
    c.prove("one draw per call over [1, total]", And(len(rng.draws) == 2, lo1 == 1, lift(hi1) == tot, lift(hi2) == tot))
    c.prove("result is a valid index", And(lift(a) >= 0, lift(a) < n))
    wa = lift(0)
    for j in range(n):
        wa = Ite(lift(a) == j, ws[j], wa)
    c.prove("a zero-weight entry is never selected", wa > 0)
    c.prove("two draws selecting the same entry differ by less than its weight (interval of length <= w_i)",
            Implies(lift(a) == b, And(r1 - r2 < wa, r2 - r1 < wa)))
    c.prove("selection is monotone in the draw order of the sorted weights (same draw, same entry)",
            Implies(r1 == r2, lift(a) == b))


@contract("methods.randselect", ["C15"], ["vsc.methods.randselect", "vsc.methods.distselect"],
          lambda tier, seed: [(n,) for n in (1, 2, 3)], max_paths=100000)
def c_randselect(c, n):
    import vsc.methods as M
    ws = [c.fresh_int("w", 0) for _ in range(n)]
    tot = lift(0)
    for w in ws:
        tot = tot + w
    c.assume(tot >= 1)
    calls = []
    rng = GhostRng(c)
    with patched((M, "random", rng)):
        M.randselect([(ws[j], (lambda j=j: calls.append(j))) for j in range(n)])
    c.prove("exactly one callable is invoked, once", len(calls) == 1)
    c.prove("one draw", len(rng.draws) == 1)
    if len(calls) == 1:
        c.prove("the invoked entry has non-zero weight", ws[calls[0]] > 0)
