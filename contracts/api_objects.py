"""Bounded stand-ins (public API, real Boolector) for the facade invariants of C06 (inline / dynamic constraints), C07
(constraint_mode, most-derived blocks, per-instance state), C08 (object hierarchy) and C03 (histories of toggles and edits).
Every expectation is made deterministic by pinning constraints, so no statistics are involved."""
import itertools
from pyvc.contract import contract, library_only


def _vals(o, names):
    return tuple(int(getattr(o, n)) for n in names)


def _solves(fn):
    """-> (ok, exception)"""
    from vsc.model.solve_failure import SolveFailure
    try:
        fn()
        return True, None
    except SolveFailure as e:
        return False, e


# ---- C06 --------------------------------------------------------------------------------------------------------------
def c06_cases(tier, seed):
    return [(k, n, order) for k in ("inline", "dynamic", "dynamic_bool", "dynamic_instances", "dynamic_list")
            for n in (1, 2, 3) for order in ("before", "after")] + [("dynamic_list_persistent", 1, "selector"),
                                                                     ("dynamic_list_persistent", 1, "refill"), ("dynamic_foreach", 1, "growing"), ("dynamic_foreach", 1, "via_class"), ("dynamic_forward_ref", 1, "one"),
                                                                     ("dynamic_forward_ref", 2, "two")]


@contract("api_objects.inline_dynamic", ["C06"],
          ["vsc.rand_obj._randobj.__call__", "vsc.constraints.dynamic_constraint_t.__call__", "vsc.constraints.dynamic_constraint_t.set_model",
           "vsc.model.expr_dynref_model.ExprDynRefModel.build", "vsc.model.expr_indexed_dynref_model.ExprIndexedDynRefModel.build",
           "vsc.model.rand_info_builder.RandInfoBuilder.visit_constraint_dynref", "vsc.methods.randomize_with",
           "vsc.model.field_composite_model.FieldCompositeModel.add_dynamic_constraint", "vsc.types.expr_subscript.__getattr__"],
          c06_cases, kind="bounded",
          bound="inline-constraint call sequences of length 6; one or two dynamic constraints referenced plainly, negated and under "
                "| and &; 1..3 live instances of the class created before/after the one being randomized; list of 3 objects")
def c_inline_dynamic(c, kind, ninst, order):
    import vsc
    from vsc.model.solve_failure import SolveFailure

    @vsc.randobj
    class Item(object):
        def __init__(self, k=0):
            self.a = vsc.rand_bit_t(5)
            self.b = vsc.rand_bit_t(5)
            self.k = vsc.bit_t(5)
            self.k = k

        @vsc.constraint
        def ab(self):
            self.a.inside(vsc.rangelist((9, 12)))
            self.b < 20

        @vsc.dynamic_constraint
        def d_eq(self):
            self.a == 12

        @vsc.dynamic_constraint
        def d_k(self):
            self.b == self.k

    def population(target_k):
        """other live instances created before / after the one under test"""
        others = [Item(10 + i) for i in range(ninst - 1)] if order == "before" else []
        o = Item(target_k)
        if order == "after":
            others = [Item(10 + i) for i in range(ninst - 1)]
        return o, others
    if kind == "dynamic_foreach":
        @vsc.randobj
        class G(object):
            def __init__(self):
                self.l = vsc.rand_list_t(vsc.bit_t(8), sz=2)
                self.on = vsc.bit_t(1)

            @vsc.dynamic_constraint
            def small(self):
                with vsc.foreach(self.l) as it:
                    it < 5

            @vsc.constraint
            def zz_maybe(self):                  # elaborated after `small` (blocks are elaborated in name order)
                if order == "via_class":
                    with vsc.if_then(self.on == 1):
                        self.small()
        g = G()
        g.on = 1
        try:
            for call in range(6):
                if order == "via_class":
                    g.randomize()
                else:
                    with g.randomize_with() as it:
                        it.small()
                L = [int(x) for x in g.l]
                c.check("C06: a dynamic constraint with a foreach body constrains every element the list has at the time of each call "
                        "that references it (nothing of an earlier call's expansion is left behind)", all(x < 5 for x in L),
                        info="call %d list=%r" % (call, L))
                if call in (0, 2):
                    g.l.append(0)
                    g.l.append(0)
            # a call that does not reference it is not restricted by the leftover of earlier calls
            if order != "via_class":
                ok, e = _solves(lambda: _rw(g, lambda it: it.l[0] > 100))
                c.check("C06: unreferenced, the dynamic constraint restricts nothing", ok)
        except Exception as e:
            library_only(e)
            c.check("C06: a dynamic constraint with a foreach body raises nothing", False, info="%s: %s" % (type(e).__name__, e))
        return
    if kind == "dynamic_forward_ref":
        # a class constraint that references a dynamic constraint of the same object whose name sorts AFTER its own
        @vsc.randobj
        class F(object):
            def __init__(self, k):
                self.a = vsc.rand_bit_t(8)
                self.k = vsc.bit_t(8)
                self.k = k
                self.on = vsc.bit_t(1)

            @vsc.constraint
            def c_sel(self):
                with vsc.if_then(self.on == 1):
                    self.d_pin()

            @vsc.dynamic_constraint
            def d_pin(self):
                self.a == self.k
        try:
            objs = [F(10 * (i + 1)) for i in range(ninst)]
            for o in objs:
                o.on = 1
            for call in range(3):
                for o in objs:
                    o.randomize()
                got = [(int(o.a), int(o.k)) for o in objs]
                c.check("C06: a dynamic constraint referenced from a class constraint of the same object constrains that object's "
                        "fields, whatever the order in which the blocks are elaborated", all(a == k for a, k in got), info=repr(got))
        except Exception as e:
            library_only(e)
            c.check("C06: a dynamic constraint referenced from a class constraint of the same object constrains that object's "
                    "fields, whatever the order in which the blocks are elaborated", False, info="%s: %s" % (type(e).__name__, e))
        return
    if kind == "dynamic_list_persistent":
        @vsc.randobj
        class Sel(object):
            def __init__(self):
                self.sel = vsc.bit_t(4)
                self.items = vsc.rand_list_t(Item())
                for i in range(3):
                    self.items.append(Item(i + 1))

            @vsc.constraint
            def pick(self):
                self.items[self.sel].d_k()

            @vsc.dynamic_constraint
            def pick_dyn(self):
                self.items[self.sel].d_k()
        h = Sel()
        try:
            if order == "selector":
                for call, sv in enumerate([0, 2, 1, 2, 0, 1]):
                    h.sel = sv
                    # every other element must be free to differ from its k in the same call
                    with h.randomize_with() as it:
                        it.items[(sv + 1) % 3].b != it.items[(sv + 1) % 3].k
                        it.items[(sv + 2) % 3].b != it.items[(sv + 2) % 3].k
                    got = [(int(x.b), int(x.k)) for x in h.items]
                    c.check("C06: a dynamic constraint referenced through list[sel] in a class constraint constrains the element "
                            "selected at the time of the call, call after call", got[sv][0] == got[sv][1]
                            and got[(sv + 1) % 3][0] != got[(sv + 1) % 3][1] and got[(sv + 2) % 3][0] != got[(sv + 2) % 3][1],
                            info="call %d sel=%d %r" % (call, sv, got))
            else:
                h.sel = 1
                h.randomize()
                c.check("C06: reference through list[1] constrains element 1", int(h.items[1].b) == int(h.items[1].k))
                h.items.clear()
                for i in range(3):
                    h.items.append(Item(i + 5))
                h.randomize()
                got = [(int(x.b), int(x.k)) for x in h.items]
                c.check("C06: after the list was refilled the reference constrains the new element 1", got[1][0] == got[1][1] == 6,
                        info=repr(got))
        except Exception as e:
            library_only(e)
            c.check("C06: a dynamic constraint referenced through list[sel] in a class constraint constrains the element "
                    "selected at the time of the call, call after call", False, info="%s: %s" % (type(e).__name__, e))
        return
    o, others = population(3)
    nblocks = len(o.get_model().constraint_model_l)
    if kind == "inline":
        seq = [("with", 9), ("plain", None), ("with", 11), ("with", 10), ("plain", None), ("with", 12)]
        for step, v in seq:
            if step == "with":
                with o.randomize_with() as it:
                    it.a == v
                c.check("C06: an inline constraint is conjoined with the class constraints for that call", int(o.a) == v and int(o.b) < 20)
            else:
                # the previous inline constraint must leave no trace: a != previous value has to be satisfiable
                prev = int(o.a)
                ok, e = _solves(lambda: _rw(o, lambda it: it.a != prev))
                c.check("C06: the next call behaves as if the previous call had no inline block", ok and int(o.a) != prev and 9 <= int(o.a) <= 12)
                o.randomize()
                c.check("C06: a plain call enforces exactly the class constraints", 9 <= int(o.a) <= 12 and int(o.b) < 20)
            c.check("C06: the object's own constraint blocks are unchanged by inline calls",
                    len(o.get_model().constraint_model_l) == nblocks)
    elif kind == "dynamic":
        ok, e = _solves(lambda: _rw(o, lambda it: it.a != 12))
        c.check("C06: an unreferenced dynamic constraint restricts nothing", ok and int(o.a) != 12)
        o.randomize()
        c.check("C06: a plain call ignores dynamic constraints (class constraints hold)", 9 <= int(o.a) <= 12)
        with o.randomize_with() as it:
            it.d_eq()
        c.check("C06: a referenced dynamic constraint restricts that call", int(o.a) == 12)
        ok, e = _solves(lambda: _rw(o, lambda it: it.a != 12))
        c.check("C06: ... and only that call", ok and int(o.a) != 12)
        with o.randomize_with() as it:
            it.d_k()
        c.check("C06: a dynamic constraint over a non-random field uses the object's current value", int(o.b) == 3)
    elif kind == "dynamic_bool":
        with o.randomize_with() as it:
            ~it.d_eq()
        c.check("C06: ~dynamic composes as a Boolean term", int(o.a) != 12 and 9 <= int(o.a) <= 12)
        with o.randomize_with() as it:
            it.d_eq() & it.d_k()
        c.check("C06: dynamic & dynamic", int(o.a) == 12 and int(o.b) == 3)
        with o.randomize_with() as it:
            it.d_eq() | it.d_k()
            it.b != 3
        c.check("C06: dynamic | dynamic (second disjunct excluded)", int(o.a) == 12 and int(o.b) != 3)
        with o.randomize_with() as it:
            it.d_eq() | it.d_k()
            it.a != 12
        c.check("C06: dynamic | dynamic (first disjunct excluded)", int(o.b) == 3 and int(o.a) != 12)
        ok, e = _solves(lambda: _rw(o, lambda it: (it.d_eq(), it.a != 12)))
        c.check("C06: a referenced dynamic constraint that contradicts the call makes it unsatisfiable", not ok)
    elif kind == "dynamic_instances":
        for other in others:
            other.randomize()
        try:
            with o.randomize_with() as it:
                it.d_k()
            c.check("C06: a dynamic constraint constrains the fields of the object through which it was referenced, however many "
                    "other instances exist", int(o.b) == 3, info="b=%d (k=3), others k=%r" % (int(o.b), [int(x.k) for x in others]))
            c.check("C06: other instances are not touched by the call", all(int(x.k) == 10 + i for i, x in enumerate(others)))
        except Exception as e:
            library_only(e)
            c.check("C06: a dynamic constraint constrains the fields of the object through which it was referenced, however many "
                    "other instances exist", False, info="%s: %s" % (type(e).__name__, e))
        for i, other in enumerate(others):
            try:
                with other.randomize_with() as it:
                    it.d_k()
                c.check("C06: ... also for the instances created %s" % order, int(other.b) == 10 + i)
            except Exception as e:
                library_only(e)
                c.check("C06: ... also for the instances created %s" % order, False, info="%s: %s" % (type(e).__name__, e))
    else:
        @vsc.randobj
        class Holder(object):
            def __init__(self):
                self.items = vsc.rand_list_t(Item())
                for i in range(3):
                    self.items.append(Item(i + 1))
        h = Holder()
        try:
            for j in range(3):
                with h.randomize_with() as it:
                    it.items[j].d_k()
                    it.items[(j + 1) % 3].b != it.items[(j + 1) % 3].k
                got = [(int(x.b), int(x.k)) for x in h.items]
                c.check("C06: a dynamic constraint referenced through list element j constrains exactly that element",
                        got[j][0] == got[j][1] and got[(j + 1) % 3][0] != got[(j + 1) % 3][1], info="j=%d %r" % (j, got))
            h.randomize()
            c.check("C06: class constraints of list elements still hold afterwards", all(9 <= int(x.a) <= 12 for x in h.items))
        except Exception as e:
            library_only(e)
            c.check("C06: a dynamic constraint referenced through list element j constrains exactly that element", False,
                    info="%s: %s" % (type(e).__name__, e))
        try:
            with h.randomize_with() as it:
                with vsc.foreach(it.items, idx=True) as i:
                    it.items[i].d_k()
            got = [(int(x.b), int(x.k)) for x in h.items]
            c.check("C06: a dynamic constraint referenced through a foreach index constrains every element", all(b == k for b, k in got),
                    info=repr(got))
        except Exception as e:
            library_only(e)
            c.check("C06: a dynamic constraint referenced through a foreach index constrains every element", False,
                    info="%s: %s" % (type(e).__name__, e))


def _rwf(vsc, f, body):
    with vsc.randomize_with(f):
        body()


def _rw(o, body):
    with o.randomize_with() as it:
        body(it)


# ---- C07: toggles made from inside the constructor ----------------------------------------------------------------------
@contract("api_objects.constraint_mode_in_ctor", ["C07"],
          ["vsc.rand_obj._randobj.__call__", "vsc.impl.constraint_proxy.ConstraintProxy.constraint_mode",
           "vsc.constraints.constraint_t.set_model", "vsc.constraints.constraint_t.constraint_mode"],
          lambda tier, seed: [(order, where) for order in itertools.permutations(("plain", "relaxed", "plain2")) for where in ("top", "list", "sub")],
          kind="bounded",
          bound="a class whose constructor may switch one of its own blocks off (self.blk.constraint_mode(False) in __init__); "
                "every construction order of {plain, relaxed, plain} instances, stand-alone / as list elements / as sub-objects; "
                "each instance must enforce exactly its own enabled blocks, before and after later constructions and toggles")
def c_constraint_mode_ctor(c, order, where):
    import vsc

    @vsc.randobj
    class Item(object):
        def __init__(self, relaxed=False):
            self.a = vsc.rand_bit_t(8)
            self.b = vsc.rand_bit_t(8)
            if relaxed:
                self.small_c.constraint_mode(False)

        @vsc.constraint
        def small_c(self):
            self.a < 10

        @vsc.constraint
        def order_c(self):
            self.b > self.a

    @vsc.randobj
    class Holder(object):
        def __init__(self, items):
            self.items = vsc.rand_list_t(Item())
            for it in items:
                self.items.append(it)

    @vsc.randobj
    class Parent(object):
        def __init__(self, x, y, z):
            self.x = vsc.rand_attr(x)
            self.y = vsc.rand_attr(y)
            self.z = vsc.rand_attr(z)
    try:
        objs = [(k, Item(relaxed=(k == "relaxed"))) for k in order]
        if where == "list":
            root = Holder([o for _, o in objs])
            path = lambda it, i: it.items[i]
        elif where == "sub":
            root = Parent(*[o for _, o in objs])
            path = lambda it, i: (it.x, it.y, it.z)[i]
        else:
            root = None

        def small_enforced(i):
            """exact probe: a == 200 is solvable iff small_c (a < 10) is not enforced on instance i"""
            if root is None:
                ok, e = _solves(lambda: _rw(objs[i][1], lambda it: it.a == 200))
            else:
                ok, e = _solves(lambda: _rw(root, lambda it: path(it, i).a == 200))
            return not ok

        def observe(tag, expect):
            for i, (k, o) in enumerate(objs):
                c.check("C07: an instance that switched a block off in its constructor has it off; every other instance of the "
                        "class - built earlier or later, stand-alone, list element or sub-object - enforces it",
                        small_enforced(i) == expect[i], info="%s order=%r where=%s instance %d (%s): enforced=%s want %s"
                        % (tag, order, where, i, k, small_enforced(i), expect[i]))
        expect = [k != "relaxed" for k in order]
        observe("after construction", expect)
        later = Item()
        ok, e = _solves(lambda: _rw(later, lambda it: it.a == 200))
        c.check("C07: an instance created after a constructor-time toggle starts with every block enabled", not ok)
        # switch the relaxed instance's block back on, and a plain one off: still strictly per instance
        ri = list(order).index("relaxed")
        objs[ri][1].small_c.constraint_mode(True)
        pi = list(order).index("plain2")
        objs[pi][1].small_c.constraint_mode(False)
        expect[ri], expect[pi] = True, False
        observe("after toggles", expect)
        (root or objs[0][1]).randomize()
        for i, (k, o) in enumerate(objs):
            if root is not None or i == 0:
                c.check("C07: the remaining block (b > a) is enforced on every instance", int(o.b) > int(o.a), info=repr((int(o.a), int(o.b))))
    except Exception as e:
        library_only(e)
        c.check("C07: constructor-time toggles raise nothing", False, info="%s: %s" % (type(e).__name__, e))


# ---- C07 --------------------------------------------------------------------------------------------------------------
def c07_cases(tier, seed):
    toggles = [list(t) for t in itertools.product((False, True), repeat=3)]
    return [(place, t, how) for place in ("top", "top_newest", "nested", "list", "list_last") for t in toggles
            for how in ("plain", "raw_mode")]


@contract("api_objects.constraint_mode", ["C07"],
          ["vsc.rand_obj._randobj.__call__", "vsc.impl.constraint_proxy.ConstraintProxy.constraint_mode",
           "vsc.constraints.constraint_t.set_model", "vsc.constraints.constraint_t.constraint_mode",
           "vsc.model.constraint_block_model.ConstraintBlockModel.set_constraint_enabled",
           "vsc.model.rand_info_builder.RandInfoBuilder.visit_constraint_block",
           "vsc.visitors.variable_bound_visitor.VariableBoundVisitor.visit_constraint_block",
           "vsc.model.field_composite_model.FieldCompositeModel.get_constraint"],
          c07_cases, kind="bounded",
          bound="3-level class hierarchy with an overridden block name; instances top-level / nested in another object / elements of a "
                "list; every on/off sequence of length 3 on one block (called plainly or inside `with vsc.raw_mode()`), interleaved "
                "with calls; a sibling instance and an instance created later observed throughout")
def c_constraint_mode(c, place, toggles, how="plain"):
    import vsc

    @vsc.randobj
    class Base(object):
        def __init__(self):
            self.a = vsc.rand_bit_t(6)
            self.b = vsc.rand_bit_t(6)

        @vsc.constraint
        def ca(self):
            self.a < 5

        @vsc.constraint
        def cb(self):
            self.b == 7

    @vsc.randobj
    class Mid(Base):
        def __init__(self):
            super().__init__()

        @vsc.constraint
        def ca(self):
            self.a > 50

    @vsc.randobj
    class Leaf(Mid):
        def __init__(self):
            super().__init__()
            self.d = vsc.rand_bit_t(6)

        @vsc.constraint
        def cd(self):
            self.d == self.b + 1

    @vsc.randobj
    class Outer(object):
        def __init__(self):
            self.x = vsc.rand_attr(Leaf())
            self.y = vsc.rand_attr(Leaf())

    @vsc.randobj
    class Holder(object):
        def __init__(self):
            self.items = vsc.rand_list_t(Leaf())
            for _ in range(2):
                self.items.append(Leaf())
    if place == "top":
        tgt, sib = Leaf(), Leaf()
        root_t, root_s = tgt, sib
    elif place == "top_newest":
        sib, tgt = Leaf(), Leaf()          # the toggled object is the most recently constructed instance of the class
        root_t, root_s = tgt, sib
    elif place == "list_last":
        h = Holder()
        tgt, sib = h.items[1], h.items[0]
        root_t = root_s = h
    elif place == "nested":
        o = Outer()
        tgt, sib = o.x, o.y
        root_t = root_s = o
    else:
        h = Holder()
        tgt, sib = h.items[0], h.items[1]
        root_t = root_s = h

    def enforced(x, cb_on):
        ok = int(x.a) > 50                       # most-derived ca (Mid) replaces Base.ca
        if cb_on:
            ok = ok and int(x.b) == 7
        return ok and int(x.d) == (int(x.b) + 1) % 64
    root_t.randomize()
    if root_s is not root_t:
        root_s.randomize()
    c.check("C07: the most-derived block of each name is enforced (a > 50, not a < 5), plus the inherited and own blocks",
            enforced(tgt, True) and enforced(sib, True), info="%r %r" % (_vals(tgt, "abd"), _vals(sib, "abd")))
    state = True
    for t in toggles:
        if how == "raw_mode":
            with vsc.raw_mode():             # the idiom used for rand_mode; a constraint_mode call may sit in the same block
                tgt.cb.constraint_mode(t)
        else:
            tgt.cb.constraint_mode(t)
        state = t
        # with cb off, b != 7 must be satisfiable; with cb on it must not be
        ok, e = _solves(lambda: _rw(root_t, (lambda it: it.x.b != 7) if place == "nested" else
                                    (lambda it: it.items[0].b != 7) if place == "list" else
                                    (lambda it: it.items[1].b != 7) if place == "list_last" else (lambda it: it.b != 7)))
        c.check("C07: a block switched off is not enforced on later calls, a block switched on is", ok == (not state),
                info="toggle=%s solvable(b!=7)=%s" % (t, ok))
        root_t.randomize()
        c.check("C07: the other blocks stay enforced and the state persists across calls", enforced(tgt, state))
        c.check("C07: toggling on one instance never affects a sibling instance", enforced(sib, True) or root_s is not root_t)
        if root_s is not root_t:
            root_s.randomize()
            c.check("C07: toggling on one instance never affects another instance of the same class", enforced(sib, True))
        later = Leaf()
        later.randomize()
        c.check("C07: an instance created later starts with every block enabled", enforced(later, True), info=repr(_vals(later, "abd")))
        lh = Holder()
        lh.randomize()
        c.check("C07: ... also instances created later inside a list / another object",
                all(enforced(x, True) for x in lh.items), info=repr([_vals(x, "abd") for x in lh.items]))
        lo_ = Outer()
        lo_.randomize()
        c.check("C07: ... also instances created later inside another object", enforced(lo_.x, True) and enforced(lo_.y, True))


# ---- C08 --------------------------------------------------------------------------------------------------------------
@contract("api_objects.hierarchy", ["C08"],
          ["vsc.types.type_base.to_expr", "vsc.types.expr.__getattr__", "vsc.rand_obj._randobj.__call__", "vsc.attrs.rand_attr", "vsc.attrs.attr",
           "vsc.model.rand_info_builder.RandInfoBuilder.visit_composite_field", "vsc.model.expr_indexed_field_ref_model.ExprIndexedFieldRefModel.build",
           "vsc.types.list_t.append"],
          lambda tier, seed: [(d,) for d in ("siblings", "nonrand_sub", "depth3", "obj_list", "shared_class", "poly_list", "obj_list_nested")], kind="bounded",
          bound="object trees of depth <= 3, two sub-objects of one class, a non-random sub-object, a list of 3 objects (repeated calls, refilled by clear+append, element "
                "assignment and whole-list assignment), a list of objects holding nested objects (index, iterator and constant-index "
                "paths of two attributes); cross-level constraints pinned to distinct values per path")
def c_hierarchy(c, shape):
    import vsc

    @vsc.randobj
    class Sub(object):
        def __init__(self):
            self.x = vsc.rand_bit_t(6)
            self.y = vsc.rand_bit_t(6)

        @vsc.constraint
        def own(self):
            self.y == self.x + 1

    if shape == "siblings":
        @vsc.randobj
        class P(object):
            def __init__(self):
                self.s1 = vsc.rand_attr(Sub())
                self.s2 = vsc.rand_attr(Sub())
                self.t = vsc.rand_bit_t(6)

            @vsc.constraint
            def cross(self):
                self.s1.x == 11
                self.s2.x == 22
                self.t == self.s1.y + self.s2.y
        o = P()
        for _ in range(3):
            o.randomize()
            c.check("C08: each reference denotes the field of the sub-object named by its path (structurally identical siblings "
                    "never alias)", _vals(o.s1, "xy") == (11, 12) and _vals(o.s2, "xy") == (22, 23) and int(o.t) == 35,
                    info="%r %r t=%d" % (_vals(o.s1, "xy"), _vals(o.s2, "xy"), int(o.t)))
    elif shape == "nonrand_sub":
        @vsc.randobj
        class P(object):
            def __init__(self):
                self.r = vsc.rand_attr(Sub())
                self.n = vsc.attr(Sub())
                self.t = vsc.rand_bit_t(6)

            @vsc.constraint
            def cross(self):
                self.t == self.n.x
                self.r.x == 5
        o = P()
        o.n.x = 40
        o.n.y = 3          # violates Sub.own on purpose: blocks of a non-random sub-object are not enforced
        for _ in range(3):
            o.randomize()
            c.check("C08: fields of a non-random sub-object keep their values and act as constants", _vals(o.n, "xy") == (40, 3) and int(o.t) == 40)
            c.check("C08: a random sub-object's own blocks are enforced", _vals(o.r, "xy") == (5, 6))
    elif shape == "depth3":
        @vsc.randobj
        class Mid(object):
            def __init__(self):
                self.u = vsc.rand_attr(Sub())
                self.v = vsc.rand_attr(Sub())

        @vsc.randobj
        class Top(object):
            def __init__(self):
                self.m1 = vsc.rand_attr(Mid())
                self.m2 = vsc.rand_attr(Mid())

            @vsc.constraint
            def cross(self):
                self.m1.u.x == 1
                self.m1.v.x == 2
                self.m2.u.x == 3
                self.m2.v.x == 4
        o = Top()
        o.randomize()
        got = [_vals(s, "xy") for s in (o.m1.u, o.m1.v, o.m2.u, o.m2.v)]
        c.check("C08: depth-3 paths reach exactly their fields and every sub-object's own block holds",
                got == [(1, 2), (2, 3), (3, 4), (4, 5)], info=repr(got))
    elif shape == "poly_list":
        # a list typed with a base class that holds an element of a derived class whose extra field sorts before the inherited one
        @vsc.randobj
        class Base(object):
            def __init__(self):
                self.z = vsc.rand_bit_t(8)

        @vsc.randobj
        class Der(Base):
            def __init__(self):
                super().__init__()
                self.a = vsc.rand_bit_t(8)

        @vsc.randobj
        class P(object):
            def __init__(self):
                self.items = vsc.rand_list_t(Base())
                self.items.append(Base())
                self.items.append(Der())

            @vsc.constraint
            def cross(self):
                self.items[0].z == 3
                self.items[1].z == 4
        o = P()
        try:
            ok = True
            for _ in range(4):
                o.randomize()
                ok = ok and int(o.items[0].z) == 3 and int(o.items[1].z) == 4
            c.check("C08: list[i].field denotes the field of that name of the element at index i, also when the element is of a "
                    "derived class", ok, info=repr([int(x.z) for x in o.items]))
        except Exception as e:
            library_only(e)
            c.check("C08: list[i].field denotes the field of that name of the element at index i, also when the element is of a "
                    "derived class", False, info="%s: %s" % (type(e).__name__, e))
    elif shape == "obj_list_nested":
        # two or more attributes behind a list subscript: items[i].leaf.x
        @vsc.randobj
        class Leaf2(object):
            def __init__(self):
                self.x = vsc.rand_bit_t(6)
                self.y = vsc.rand_bit_t(6)

        @vsc.randobj
        class Item2(object):
            def __init__(self):
                self.leaf = vsc.rand_attr(Leaf2())
                self.k = vsc.rand_bit_t(6)

        @vsc.randobj
        class P(object):
            def __init__(self):
                self.items = vsc.rand_list_t(Item2())
                for _ in range(3):
                    self.items.append(Item2())

            @vsc.constraint
            def by_index(self):
                with vsc.foreach(self.items, idx=True) as i:
                    self.items[i].leaf.x == i + 3
                    self.items[i].k == self.items[i].leaf.x + 1

            @vsc.constraint
            def by_iterator(self):
                with vsc.foreach(self.items) as it:
                    it.leaf.y == it.leaf.x + 10

            @vsc.constraint
            def by_constant(self):
                self.items[1].leaf.y > self.items[0].leaf.y
        o = P()

        def observe(tag):
            o.randomize()
            got = [(int(e.leaf.x), int(e.leaf.y), int(e.k)) for e in o.items]
            c.check("C08: a path of several attributes behind a list subscript (items[i].leaf.x, it.leaf.y, items[1].leaf.y) denotes "
                    "the field of the element at that index at the time of the call",
                    got == [(3, 13, 4), (4, 14, 5), (5, 15, 6)], info="%s %r" % (tag, got))
        try:
            observe("first call")
            observe("second call")
            o.items[1] = Item2()
            observe("after replacing element 1")
            o.items.clear()
            for _ in range(3):
                o.items.append(Item2())
            observe("after clear + append")
        except Exception as e:
            library_only(e)
            c.check("C08: a path of several attributes behind a list subscript (items[i].leaf.x, it.leaf.y, items[1].leaf.y) denotes "
                    "the field of the element at that index at the time of the call", False, info="%s: %s" % (type(e).__name__, e))
    elif shape == "obj_list":
        @vsc.randobj
        class P(object):
            def __init__(self):
                self.items = vsc.rand_list_t(Sub())
                for _ in range(3):
                    self.items.append(Sub())

            @vsc.constraint
            def cross(self):
                self.items[0].x == 7
                self.items[2].x == 9
                self.items[1].x > self.items[2].x
        o = P()

        def observe(tag):
            o.randomize()
            got = [_vals(s, "xy") for s in o.items]
            c.check("C08: list[i].field denotes the field of exactly the element that is at index i at the time of the call; "
                    "each element's own block holds", len(got) == 3 and got[0] == (7, 8) and got[2] == (9, 10) and got[1][0] > 9
                    and got[1][1] == (got[1][0] + 1) % 64, info="%s %r" % (tag, got))
        observe("first call")
        observe("second call")
        o.items.clear()
        for _ in range(3):
            o.items.append(Sub())
        observe("after clear + append")
        observe("after clear + append, again")
        o.items[2] = Sub()
        observe("after assigning element 2")
        o.items = [Sub(), Sub(), Sub()]
        observe("after assigning the whole list")
    else:
        @vsc.randobj
        class A(object):
            def __init__(self):
                self.s = vsc.rand_attr(Sub())

            @vsc.constraint
            def c1(self):
                self.s.x == 30

        @vsc.randobj
        class B(object):
            def __init__(self):
                self.s = vsc.rand_attr(Sub())

            @vsc.constraint
            def c1(self):
                self.s.x == 40
        a, b = A(), B()
        a.randomize()
        b.randomize()
        a.randomize()
        c.check("C08: sub-objects of one class held by different parents do not alias", _vals(a.s, "xy") == (30, 31) and _vals(b.s, "xy") == (40, 41))


# ---- C03 histories ----------------------------------------------------------------------------------------------------------
@contract("api_objects.histories", ["C03"],
          ["vsc.types.type_base.rand_mode", "vsc.types.rangelist.append", "vsc.types.rangelist.clear", "vsc.types.rangelist.extend",
           "vsc.methods.randomize", "vsc.model.field_scalar_model.FieldScalarModel.set_used_rand", "vsc.model.expr_rangelist_model.ExprRangelistModel.add_range"],
          lambda tier, seed: [(k,) for k in ("rand_mode", "rangelist", "nonrand_list", "standalone", "failed_call")], kind="bounded",
          bound="histories of length <= 6 of assignments, rand_mode toggles, rangelist / list edits interleaved with calls")
def c_histories(c, kind):
    import vsc
    from vsc.model.solve_failure import SolveFailure
    if kind == "rand_mode":
        @vsc.randobj
        class C(object):
            def __init__(self):
                self.a = vsc.rand_bit_t(6)
                self.b = vsc.rand_bit_t(6)

            @vsc.constraint
            def ab(self):
                self.b == self.a + 1
        o = C()
        o.randomize()
        with vsc.raw_mode():
            o.a.rand_mode = False
        o.a = 17
        for _ in range(3):
            o.randomize()
            c.check("C03: a field whose rand_mode is off keeps its value and acts as a constant", _vals(o, "ab") == (17, 18))
        o.a = 40
        o.randomize()
        c.check("C03: changing the value between calls changes the solution accordingly", _vals(o, "ab") == (40, 41))
        with vsc.raw_mode():
            o.a.rand_mode = True
        ok, e = _solves(lambda: _rw(o, lambda it: it.a != 40))
        c.check("C03: switching rand_mode back on makes the field random again", ok and int(o.a) != 40 and int(o.b) == (int(o.a) + 1) % 64)
    elif kind == "rangelist":
        @vsc.randobj
        class C(object):
            def __init__(self):
                self.a = vsc.rand_bit_t(6)
                self.rl = vsc.rangelist(3)

            @vsc.constraint
            def ab(self):
                self.a.inside(self.rl)
        o = C()
        o.randomize()
        c.check("C03: rangelist content at the time of the call", int(o.a) == 3)
        o.rl.clear()
        o.rl.append(9)
        o.randomize()
        c.check("C03: clear + append between calls is seen by the next call", int(o.a) == 9)
        o.rl.clear()
        o.rl.extend([(20, 20), 21])
        seen = set()
        for _ in range(12):
            o.randomize()
            seen.add(int(o.a))
        c.check("C03: extend between calls is seen by the next calls", seen <= {20, 21} and len(seen) >= 1)
    elif kind == "nonrand_list":
        @vsc.randobj
        class C(object):
            def __init__(self):
                self.a = vsc.rand_bit_t(6)
                self.nl = vsc.list_t(vsc.bit_t(6), init=[4])

            @vsc.constraint
            def ab(self):
                self.a.inside(self.nl)
        o = C()
        o.randomize()
        c.check("C03: a non-random list contributes its content as constants", int(o.a) == 4 and list(o.nl) == [4])
        o.nl.clear()
        o.nl.append(33)
        o.randomize()
        c.check("C03: edits of the non-random list between calls are seen; the list itself is not modified", int(o.a) == 33 and list(o.nl) == [33])
    elif kind == "standalone":
        a, b, n = vsc.rand_bit_t(6), vsc.rand_bit_t(6), vsc.rand_bit_t(6)
        n.set_val(44)
        b.set_val(2)
        # deterministic probe: with n a constant (44) the block below is unsatisfiable; it solves only if n is (wrongly) a variable
        ok, e = _solves(lambda: _rwf(vsc, a, lambda: (a == n + 1, a == 10)))
        c.check("C03: declared-random fields not passed to a free-standing randomize_with keep their values and act as constants",
                (not ok) and int(n.get_val()) == 44 and int(b.get_val()) == 2,
                info="solved=%s a=%d n=%d b=%d" % (ok, int(a.get_val()), int(n.get_val()), int(b.get_val())))
        a2, b2, n2 = vsc.rand_bit_t(6), vsc.rand_bit_t(6), vsc.rand_bit_t(6)
        n2.set_val(44)
        vsc.randomize(a2, b2)
        c.check("C03: ... on the plain form too", int(n2.get_val()) == 44)
        m = vsc.bit_t(6)
        m.set_val(30)
        with vsc.randomize_with(a):
            a == m + 1
        c.check("C03: a declared non-random free-standing field referenced by the call is a constant",
                int(a.get_val()) == 31 and int(m.get_val()) == 30)
    else:
        @vsc.randobj
        class C(object):
            def __init__(self):
                self.a = vsc.rand_bit_t(6)
                self.n = vsc.bit_t(6)
                self.m = vsc.int_t(6)

            @vsc.constraint
            def ab(self):
                self.a < self.n
        o = C()
        o.n = 0
        o.m = -7
        o.a = 13
        try:
            o.randomize()
            c.check("C03: unsatisfiable call raises", False)
        except SolveFailure:
            pass
        c.check("C03: non-random fields keep their values when the call fails", int(o.n) == 0 and int(o.m) == -7)
