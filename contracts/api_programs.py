"""Bounded stand-in (public API, real Boolector) over the program family of bounded/programs.py: solutions, failures, frames,
soft-constraint choice and inferred domains are compared with the independent reference evaluator bounded/ref_eval.py,
which enumerates the whole value space of the random fields (fields <= 4 bits)."""
import random
from pyvc.contract import contract
from bounded import programs, ref_eval


def prog_cases(tier, seed):
    n = 2400 if tier == "thorough" else 320
    base = 1000 * (seed % 1000)
    ids = [base + i for i in range(n)]
    return [(ids[i:i + 20],) for i in range(0, n, 20)]


def fixed_choices(P, r):
    out = []
    for k in range(2):
        d = {}
        for n in P["fixed"]:
            w, s = P["F"][n]
            d[n] = r.choice(list(ref_eval.dom(w, s)))
        out.append(d)
    return out


@contract("api_programs.family", ["C01", "C02", "C03", "C05", "C14"],
          ["vsc.model.rand_info_builder.RandInfoBuilder.build", "vsc.model.rand_info_builder.RandInfoBuilder.process_fieldref",
           "vsc.model.rand_info_builder.RandInfoBuilder.visit_constraint_stmt_leave",
           "vsc.model.rand_info_builder.RandInfoBuilder.visit_constraint_soft",
           "vsc.model.randomizer.Randomizer.do_randomize", "vsc.visitors.array_constraint_builder.ArrayConstraintBuilder.visit_constraint_if_else",
           "vsc.visitors.variable_bound_visitor.VariableBoundVisitor.process", "vsc.rand_obj._randobj.__call__",
           "vsc.model.expr_in_model.ExprInModel.build", "vsc.types.rangelist.__init__", "vsc.constraints.if_then",
           "vsc.constraints.implies", "vsc.constraints.soft", "vsc.constraints.unique"],
          prog_cases, kind="bounded",
          bound="seeded family of constraint programs: 2..3 random fields of 1..4 bits (signed/unsigned) + 0..1 non-random field, "
                "1..5 statements from {relational, arithmetic-relational, in/rangelist, part-select, Boolean composition, if/else, "
                "implies, unique, soft}, expression depth <= 2; 2 settings of the non-random fields x 3 calls; satisfiability and "
                "the greedy soft reference decided by exhaustive enumeration; quick 320 programs, thorough 2400")
def c_family(c, seeds):
    import vsc
    from vsc.model.rand_state import RandState
    from vsc.model.solve_failure import SolveFailure
    from vsc.visitors.variable_bound_visitor import VariableBoundVisitor
    for sd in seeds:
        P = programs.gen_program(sd)
        src = programs.render(P)
        ns = {"vsc": vsc}
        try:
            exec(src, ns)
            o = ns["P"]()
        except Exception as e:
            c.check("the program is accepted by the DSL", False, info="seed %d: %s: %s\n%s" % (sd, type(e).__name__, e, src))
            continue
        F = P["F"]
        cls = ref_eval.classify(P)
        T = " [%s]" % (",".join(cls) if cls else "plain")
        r = random.Random(sd)
        o.set_randstate(RandState.mkFromSeed(sd))
        for fixed in fixed_choices(P, r):
            for n, v in fixed.items():
                setattr(o, n, v)
            sols = ref_eval.solutions(F, P["rand"], fixed, P["stmts"])
            slist = ref_eval.softs(P["stmts"])
            best, kept = ref_eval.greedy(sols, F, slist) if sols else ([], [])
            tag = "seed %d fixed %r" % (sd, fixed)
            # inferred domains (C14)
            try:
                m = o.get_model()
                m.set_used_rand(True, 0)
                bv = VariableBoundVisitor()
                bv.process([m], [])
                for f, b in bv.bound_m.items():
                    if f.name in P["rand"]:
                        vals = {V[f.name] for V in sols}
                        miss = [v for v in vals if not any(lo <= v <= hi for lo, hi in b.domain.range_l)]
                        c.check("C14: the inferred domain of every random field contains every feasible value" + T, not miss,
                                info="%s field %s feasible %r domain %r\n%s" % (tag, f.name, sorted(vals), b.domain.range_l, src))
            except Exception as e:
                c.check("C14: bound inference raises nothing" + T, False, info="%s %s: %s\n%s" % (tag, type(e).__name__, e, src))
            for call in range(3):
                before = {n: int(getattr(o, n)) for n in F}
                try:
                    o.randomize()
                    failed = None
                except SolveFailure as e:
                    failed = e
                except Exception as e:
                    c.check("C02: no exception other than SolveFailure leaves randomize()" + T, False,
                            info="%s %s: %s\n%s" % (tag, type(e).__name__, e, src))
                    break
                after = {n: int(getattr(o, n)) for n in F}
                c.check("C02: SolveFailure iff no assignment of the random fields satisfies the hard constraints" + T,
                        (failed is not None) == (len(sols) == 0), info="%s solutions=%d\n%s" % (tag, len(sols), src))
                c.check("C03: non-random fields keep their values", all(after[n] == fixed[n] for n in fixed),
                        info="%s before %r after %r" % (tag, before, after))
                if failed is not None:
                    continue
                if not sols:
                    break
                c.check("C01: returned values lie inside the declared types",
                        all(after[n] in ref_eval.dom(*F[n]) for n in F), info="%s %r" % (tag, after))
                c.check("C01: returned values satisfy every hard constraint (R-EXPR)" + T,
                        all(ref_eval.holds(st, F, after) for st in P["stmts"]), info="%s values %r\n%s" % (tag, after, src))
                if slist:
                    c.check("C05: the satisfied soft constraints are the greedy-by-priority maximal set" + T,
                            any(all(after[n] == V[n] for n in F) for V in best),
                            info="%s values %r kept %d of %d softs\n%s" % (tag, after, len(kept), len(slist), src))


def order_cases(tier, seed):
    n = 1200 if tier == "thorough" else 200
    base = 500000 + 1000 * (seed % 1000)
    ids = [base + i for i in range(n)]
    return [(ids[i:i + 20],) for i in range(0, n, 20)]


@contract("api_programs.order_family", ["C20", "C01", "C02"],
          ["vsc.constraints.solve_order", "vsc.model.rand_info_builder.RandInfoBuilder.build",
           "vsc.model.solvegroup_swizzler_partsel.SolveGroupSwizzlerPartsel.swizzle",
           "vsc.model.solvegroup_swizzler_partsel.SolveGroupSwizzlerPartsel.swizzle_field_l"],
          order_cases, kind="bounded",
          bound="the program family of api_programs.family without soft constraints, plus 1..3 acyclic solve_order directives (single "
                "fields and lists of fields) over its random fields; 200 programs quick / 1200 thorough; 2 settings x 3 calls")
def c_order_family(c, seeds):
    import vsc
    from vsc.model.rand_state import RandState
    from vsc.model.solve_failure import SolveFailure
    for sd in seeds:
        P = programs.gen_program(sd, with_soft=False, with_order=True)
        src = programs.render(P)
        ns = {"vsc": vsc}
        try:
            exec(src, ns)
            o = ns["P"]()
        except Exception as e:
            c.check("the program is accepted by the DSL", False, info="seed %d: %s: %s\n%s" % (sd, type(e).__name__, e, src))
            continue
        F = P["F"]
        cls = ref_eval.classify(P)
        T = " [%s]" % (",".join(cls) if cls else "plain")
        r = random.Random(sd)
        o.set_randstate(RandState.mkFromSeed(sd))
        for fixed in fixed_choices(P, r):
            for n, v in fixed.items():
                setattr(o, n, v)
            sols = ref_eval.solutions(F, P["rand"], fixed, P["stmts"])
            tag = "seed %d fixed %r" % (sd, fixed)
            for call in range(3):
                try:
                    o.randomize()
                    failed = None
                except SolveFailure as e:
                    failed = e
                except Exception as e:
                    c.check("C20: ordering never paints the solve into a corner (no exception other than SolveFailure)" + T, False,
                            info="%s %s: %s\n%s" % (tag, type(e).__name__, e, src))
                    break
                after = {n: int(getattr(o, n)) for n in F}
                c.check("C20: satisfiability is unchanged by solve_order (SolveFailure iff unsatisfiable)" + T,
                        (failed is not None) == (len(sols) == 0), info="%s solutions=%d\n%s" % (tag, len(sols), src))
                if failed is None and sols:
                    c.check("C20: all constraints still hold with solve_order" + T,
                            all(ref_eval.holds(st, F, after) for st in P["stmts"]), info="%s values %r\n%s" % (tag, after, src))
