"""Bounded stand-in: a library of stand-alone scenario programs (public API only), one per root cause that was found by
reading the code with a property in hand.  Each program states in its docstring the clause of the property it exercises,
exits 0 when the library behaves as the clause says and 1 (printing expected / got) when it does not; it is run in a fresh
interpreter against the tree under check.  A scenario is registered in bounded/scenarios/index.json with the property it
belongs to and a one-line claim, which becomes the obligation name.  Scenarios that fail on the unchanged tree are either
repaired (they stay as regression checks) or recorded in known_findings.json by scenario name."""
import os
import sys
import json
import subprocess
from pyvc.contract import contract

HERE = os.path.dirname(os.path.dirname(os.path.abspath(__file__)))
SC = os.path.join(HERE, "bounded", "scenarios")
INDEX = json.load(open(os.path.join(SC, "index.json"))) if os.path.exists(os.path.join(SC, "index.json")) else []


def _cases(prop):
    return lambda tier, seed: [(e["file"],) for e in INDEX if e["property"] == prop]


def _run_scenario(c, fn):
    e = [x for x in INDEX if x["file"] == fn][0]
    src = os.environ.get("PYVC_REPO_SRC", "/repo/src")
    env = dict(os.environ, PYTHONPATH=src, PYTHONDONTWRITEBYTECODE="1", PYTHONHASHSEED="0")
    import tempfile
    with tempfile.TemporaryDirectory(prefix="pyvc_sc_") as wd:      # scenarios may write files (XML databases): keep them out of the way
        r = subprocess.run([sys.executable, os.path.join(SC, fn)], capture_output=True, text=True, env=env, timeout=600, cwd=wd)
    out = (r.stdout + r.stderr)[-1500:]
    harness = ("NameError", "SyntaxError", "IndentationError", "ImportError", "ModuleNotFoundError")
    last = [l for l in r.stderr.strip().splitlines()[-1:]]
    if r.returncode not in (0, 1) or (last and last[0].split(":")[0] in harness):
        raise RuntimeError("scenario %s ended with status %s (not a verdict):\n%s" % (fn, r.returncode, out))
    c.check("%s: %s" % (e["property"], e["claim"]), r.returncode == 0, info="scenario %s\n%s" % (fn, out))


def _mk(prop):
    @contract("api_scenarios.%s" % prop, [prop], ["vsc.rand_obj._randobj.__call__"], _cases(prop), kind="bounded", replay="none",
              bound="stand-alone scenario programs (bounded/scenarios/*.py, one per root cause) run in fresh interpreters; each "
                    "exits 0 iff the clause named in its docstring holds on the program")
    def c_sc(c, fn):
        _run_scenario(c, fn)
    return c_sc


for _p in sorted({e["property"] for e in INDEX}):
    _mk(_p)
