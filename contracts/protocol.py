"""Solving-protocol contracts of Randomizer.randomize and SolveGroupSwizzlerPartsel against the ghost Boolector.

The real Randomizer.randomize / swizzler / RandSetNodeBuilder / RandSetDisposeVisitor / FieldScalarModel code runs on
rand sets whose constraints are abstract statements (G-STMT stubs: build() returns a 1-bit node standing for an
arbitrary constraint).  Satisfiability is an *oracle*: every Sat() call forks on the answer unless the answer is forced
by anti-monotonicity (a subset of a satisfiable set is satisfiable, a superset of an unsatisfiable set is not), so all
answer sequences any solver could give are explored.  Obligations are stated over the ghost solver's event log.

Serves C01 (Pr), C02 (SolveFailure iff hard UNSAT; no other exception), C03 (write frame), C05 (greedy soft section),
C09 (draw routing, diagnostics do not draw), C14 (unconstrained draw inside the domain), C16 (handle hygiene), C20.
"""
import itertools
import z3
from pyvc.contract import contract
from pyvc.sym import And, Or, Not, Implies, Ite, Iff, SymInt, SymBool, lift, Ctx
from pyvc.ghost import GhostRandState, TripWire, patched
from pyvc.ghost_btor import GhostBoolector, Node, GhostBtorError


class Oracle:
    """anti-monotone satisfiability oracle shared by every solver instance of one call"""

    def __init__(self, c):
        self.c = c
        self.hist = []

    @staticmethod
    def key(nodes):
        return frozenset((n.tag if n.tag and not n.tag.startswith("var") else id(n)) for n in nodes)

    def query(self, S):
        if not S:
            return True          # the empty constraint set is satisfiable
        for T, a in self.hist:
            if a and S <= T:
                return True
        for T, a in self.hist:
            if not a and T <= S:
                return False
        return None

    def __call__(self, btor, asserted, assumed):
        S = self.key(asserted + assumed)
        a = self.query(S)
        if a is None:
            a = bool(self.c.fresh_bool("sat"))
        self.hist.append((S, a))
        return a


class StmtStub:
    """abstract constraint statement (G-STMT): an opaque 1-bit proposition; soft statements carry a priority"""

    def __init__(self, name, priority=None, raise_on_build=False):
        self.name = name
        if priority is not None:
            self.priority = priority
        self.node = None
        self.srcinfo = None
        self.builds = []
        self.disposed = 0

    def build(self, btor, soft=False):
        n = Node(1, z3.BitVec("p_" + self.name, 1), btor, tag=self.name)
        self.builds.append((btor, soft, n))
        return n

    def accept(self, v):
        v.visit_constraint_stmt_enter(self)
        v.visit_constraint_stmt_leave(self)

    def dispose(self):
        self.disposed += 1
        self.node = None

    def __repr__(self):
        return "Stmt(%s)" % self.name


class Printer:
    def do_print(self, *a, **k):
        return "<c>"

    def print(self, *a, **k):
        return "<c>"


def mk_world(c, shape, ordered, with_enum=True):
    """shape: list of rand sets, each (n_fields, n_hard, n_soft); returns (ri, bound_m, sets, fields, unconstrained)"""
    from vsc.model.rand_set import RandSet
    from vsc.model.rand_info import RandInfo
    from vsc.model.field_scalar_model import FieldScalarModel
    from vsc.model.variable_bound_scalar_model import VariableBoundScalarModel
    sets = []
    bound_m = {}
    writes = []

    class LoggedField(FieldScalarModel):
        def set_val(self, val):
            writes.append((self, self.is_used_rand, val, self.val.v))
            FieldScalarModel.set_val(self, val)
    k = 0
    for si, (nf, nh, ns) in enumerate(shape):
        rs = RandSet()
        for i in range(nf):
            f = LoggedField("f%d_%d" % (si, i), 2, False, True)
            f.is_used_rand = True
            rs.add_field(f)
            bound_m[f] = VariableBoundScalarModel(f)
        nr = LoggedField("n%d" % si, 2, False, False)      # a non-random field referenced by the set
        nr.is_used_rand = False
        nr.val.v = 1
        rs.add_field(nr)
        for i in range(nh):
            rs.add_constraint(StmtStub("h%d_%d" % (si, i)))
        for i in range(ns):
            # priorities are NOT monotone in list position (rand-set merging appends the absorbed set's soft statements
            # behind the survivor's): the solve order must follow the priority, not the position in the list
            rs.add_constraint(StmtStub("s%d_%d" % (si, i), priority=k + {1: [1], 2: [2, 1], 3: [2, 3, 1]}[ns][i]))
        k += ns
        if ordered and nf >= 2:
            rs.rand_order_l = [[rs.field_rand_l[0]], rs.field_rand_l[1:]]
        sets.append(rs)
    uf = LoggedField("u_rand", 4, True, True)
    uf.is_used_rand = True
    bound_m[uf] = VariableBoundScalarModel(uf)
    un = LoggedField("u_nonrand", 4, False, False)
    un.is_used_rand = False
    un.val.v = 9
    bound_m[un] = VariableBoundScalarModel(un)
    ue = LoggedField("u_enum", 32, True, True)          # multi-range (enumerator) domain
    ue.is_used_rand = True
    be = VariableBoundScalarModel(ue)
    be.domain.range_l = [[1, 1], [5, 5], [7, 7]]
    bound_m[ue] = be
    ri = RandInfo(sets, [uf, un, ue] if with_enum else [uf, un])
    return ri, bound_m, sets, writes, (uf, un, ue if with_enum else None)


def shapes(tier, seed):
    out = []
    base = [[(1, 1, 0)], [(1, 2, 0)], [(1, 1, 1)], [(1, 1, 2)], [(1, 0, 2)], [(1, 1, 3)], [(2, 1, 1)],
            [(1, 1, 1), (1, 1, 0)], [(1, 0, 0)]]
    if tier == "thorough":
        base += [[(2, 2, 2)], [(1, 2, 3)], [(1, 1, 1), (1, 1, 1)], [(1, 1, 0), (1, 1, 0), (1, 0, 1)], [(2, 1, 3)]]
    for sh in base:
        for dbg in (0, 1):
            out.append((sh, dbg, False, 0))
    out.append(([(2, 1, 0)], 0, True, 0))
    out.append(([(2, 1, 1)], 0, True, 0))
    # solve_fail_debug: the diagnostics pass re-builds every rand set in a second solver
    for sh in ([(1, 1, 0)], [(1, 2, 0)], [(1, 1, 0), (1, 1, 0)], [(1, 1, 1), (1, 1, 0)]):
        out.append((sh, 0, False, 1))
    return out


FNS = ["vsc.model.randomizer.Randomizer.randomize", "vsc.model.randomizer.Randomizer.__init__",
       "vsc.model.solvegroup_swizzler_partsel.SolveGroupSwizzlerPartsel.swizzle",
       "vsc.model.solvegroup_swizzler_partsel.SolveGroupSwizzlerPartsel.swizzle_field_l",
       "vsc.model.solvegroup_swizzler_partsel.SolveGroupSwizzlerPartsel.swizzle_field",
       "vsc.model.solvegroup_swizzler_partsel.SolveGroupSwizzlerPartsel.create_rand_domain_constraint",
       "vsc.model.solvegroup_swizzler_partsel.SolveGroupSwizzlerPartsel._build_swizzle_constraints",
       "vsc.model.rand_set_node_builder.RandSetNodeBuilder.build",
       "vsc.model.rand_set_dispose_visitor.RandSetDisposeVisitor.dispose",
       "vsc.model.rand_set.RandSet.add_constraint", "vsc.model.rand_set.RandSet.add_field"]


@contract("randomizer.randomize.protocol", ["C01", "C02", "C03", "C05", "C09", "C14", "C16", "C20"], FNS, shapes,
          replay="none", max_paths=200000,
          note="Randomizer.randomize protocol: rand-set structures <= 3 sets x <= 2 rand fields (2-bit) x <= 2 hard x <= 3 soft "
               "abstract statements; all Sat-answer sequences consistent with an anti-monotone oracle; all random index/pattern draws")
def c_protocol(c, shape, debug, ordered, sfd=0):
    import vsc.model.randomizer as R
    import vsc.model.solvegroup_swizzler_partsel as SW
    from vsc.model.solve_failure import SolveFailure
    with_enum = (sum(nf + nh + ns for nf, nh, ns in shape) <= 2) or ordered
    ri, bound_m, sets, writes, (uf, un, ue) = mk_world(c, shape, ordered, with_enum)
    oracle = Oracle(c)
    solvers = []

    def mk_btor():
        b = GhostBoolector(oracle)
        solvers.append(b)
        return b
    rs_ = GhostRandState(c)
    trip = []
    exc = None
    class PP:
        @staticmethod
        def print(*a, **k):
            return "<c>"

    class Lint:
        def lint(self, fl, cl):
            return ""

    class SI:
        @staticmethod
        def toString(x):
            return "<src>"
    with patched((R, "Boolector", mk_btor), (R, "random", TripWire("random", trip)), (R, "ModelPrettyPrinter", PP),
                 (R, "LintVisitor", Lint), (R, "SourceInfo", SI)):
        r = R.Randomizer(rs_, debug=debug, solve_fail_debug=sfd)
        r.pretty_printer = Printer()
        try:
            r.randomize(ri, bound_m)
        except SolveFailure as e:
            exc = e
        except (GhostBtorError, AssertionError) as e:
            c.check("raises-only: no exception other than SolveFailure leaves Randomizer.randomize", False, info=repr(e))
            return

    # ---- which hard check failed, if any
    hard_unsat = False
    for b in solvers:
        if b.sat_calls and b.sat_calls[0][2] is False and not getattr(b, "is_diag", False):
            hard_unsat = True
        if hard_unsat:
            break            # the solver created after the failing one is the diagnostics solver
    c.check("SolveFailure is raised iff the hard check of a rand set answered UNSAT", (exc is not None) == hard_unsat)

    # ---- per solver: assert discipline and model validity (the diagnostics solver, created after the failing check when
    # solve_fail_debug is set, only produces text and is exempt from the assert discipline)
    main = []
    for b in solvers:
        main.append(b)
        if b.sat_calls and b.sat_calls[0][2] is False:
            break
    for b in main:
        sat_set = None
        first_sat_seen = False
        ok_assert = True
        for ev in b.log:
            if ev[0] == "sat":
                first_sat_seen = True
        # replay the log
        asserted = []
        assumed = []
        bad = None
        for ev in b.log:
            if ev[0] == "assume":
                assumed.append(ev[1])
            elif ev[0] == "assert":
                if sat_set is None:
                    if any(e[0] == "sat" for e in b.log[:b.log.index(ev)]):
                        bad = ev[1]
                elif Oracle.key([ev[1]]) <= sat_set:
                    pass
                else:
                    bad = ev[1]
                asserted.append(ev[1])
            elif ev[0] == "sat":
                sat_set = Oracle.key(asserted + assumed) if ev[1] else None
                assumed = []
        c.check("nothing is asserted that was not part of the last satisfiable check (SAT(asserted) is an invariant)",
                bad is None, info=repr(bad))
        c.check("every model read happens while the model is valid", not b.violations, info=repr(b.violations))

    if exc is None:
        # ---- C01-Pr: every hard node asserted in its set's solver
        for rs in sets:
            for st in rs.constraints():
                hb = [x for x in st.builds if x[1] is False or x[1] == 0]
                last = hb[-1] if hb else None
                ok = last is not None and any(n.tag == st.name for n in last[0].asserted)
                c.check("on normal return every hard statement of every rand set is asserted in the set's solver", ok,
                        info=st.name)
        # ---- C05: the soft section is greedy by descending priority
        for b in solvers:
            mine = [rs for rs in sets if any(x[0] is b for st in rs.constraints() + rs.soft_constraints() for x in st.builds)]
            softs = [st for rs in mine for st in rs.soft_constraints()]
            if not softs:
                continue
            H = frozenset(n.tag for n in b.asserted if (n.tag or "").startswith("h"))
            G = set()
            decided = True
            for st in sorted(softs, key=lambda s: -s.priority):
                q = oracle.query(frozenset(H | G | {st.name}))
                if q is None:
                    decided = False
                    break
                if q:
                    G.add(st.name)
            got = {n.tag for n in b.asserted if (n.tag or "").startswith("s")}
            c.check("each soft statement is kept or dropped by a satisfiability check of H + kept + it (R-SOFT defined)", decided)
            if decided:
                c.check("asserted soft statements == greedy(H, softs by descending priority)", got == G,
                        info="got %s want %s" % (sorted(got), sorted(G)))
            used = [ev[1] for ev in b.log if ev[0] in ("assume", "assert")]
            for st in softs + [h for rs in mine for h in rs.constraints()]:
                is_soft = hasattr(st, "priority")
                c.check("the nodes handed to the solver are built with soft=True for soft statements and soft=False for hard ones",
                        all(bool(x[1]) == is_soft for x in st.builds if any(x[2] is u for u in used)))
        # ---- C16: handle hygiene on the success path
        for rs in sets:
            c.check("after a successful call no field of a solved rand set keeps a solver variable",
                    all(f.var is None for f in rs.all_fields()))
    else:
        for rs in sets:
            c.check("after SolveFailure no field of any rand set keeps a solver variable",
                    all(f.var is None for f in rs.all_fields()))
        c.check("SolveFailure carries diagnostics text", isinstance(exc.diagnostics, str))

    # ---- C03: write frame
    c.check("write frame: a field that is not random in this call is only ever re-written with the value it holds",
            And(*[lift(v) == old for (f, used, v, old) in writes if not used]),
            info=repr([f.name for f, u, v, o in writes if not u]))
    c.check("the non-random fields keep their values", lift(un.val.v) == 9)
    for rs in sets:
        for f in rs.all_fields():
            if f.name.startswith("n"):
                c.check("a non-random field inside a rand set keeps its value", lift(f.val.v) == 1)
    # ---- C14/C01: the unconstrained random field is drawn inside its domain
    uw = [v for (f, used, v, old) in writes if f is uf]
    c.check("an unconstrained random field is drawn exactly once, inside its type domain",
            And(len(uw) == 1, *([lift(uw[0]) >= -8, lift(uw[0]) <= 7] if uw else [])))
    if ue is not None:
        ew = [v for (f, used, v, old) in writes if f is ue]
        c.check("an unconstrained field with a multi-range (enumerator) domain is drawn from that domain",
                And(len(ew) == 1, *([Or(lift(ew[0]) == 1, lift(ew[0]) == 5, lift(ew[0]) == 7)] if ew else [])))
    # ---- C03/C16: "random in this call" is per-call state
    # (after SolveFailure the un-marking is do_randomize's job: contract randomizer.do_randomize.order)
    c.check("C03: after a completed solve no field that was solved or drawn is still marked used-random (a later call that merely "
            "references it must treat it as a constant)",
            exc is not None or (not uf.is_used_rand and (ue is None or not ue.is_used_rand)
                                and all(not f.is_used_rand for rs in sets for f in rs.all_fields())),
            info=repr([(f.name, f.is_used_rand) for f in [uf] + ([ue] if ue is not None else []) +
                       [f for rs in sets for f in rs.all_fields()] if f.is_used_rand]))
    # ---- C09: draw routing
    c.check("no use of the global random module inside the solve path", trip == [], info=repr(trip))
    c.ghost["draws"] = [(lo if not isinstance(lo, SymInt) else "sym", hi if not isinstance(hi, SymInt) else "sym")
                        for lo, hi, r in rs_.rng.draws]
    return len(rs_.rng.draws)


@contract("swizzler._build_swizzle_constraints", ["C20", "C14", "C02"],
          ["vsc.model.solvegroup_swizzler_partsel.SolveGroupSwizzlerPartsel._build_swizzle_constraints",
           "vsc.model.solvegroup_swizzler_partsel.SolveGroupSwizzlerPartsel.create_rand_domain_constraint"],
          lambda tier, seed: [(w, s) for w in ([1, 2, 5, 6, 7, 8, 13, 32, 33, 64] if tier != "thorough" else range(1, 65))
                              for s in (False, True)], replay="none", backend="bv")
def c_swizzle_constraints(c, w, signed):
    import vsc.model.solvegroup_swizzler_partsel as SW
    from vsc.model.field_scalar_model import FieldScalarModel
    from vsc.model.variable_bound_scalar_model import VariableBoundScalarModel
    f = FieldScalarModel("f", w, signed, True)
    f.is_used_rand = True
    bt = GhostBoolector()
    f.build(bt)
    b = VariableBoundScalarModel(f)
    full = tuple(b.domain.range_l[0])
    doms = [full]
    if w >= 3:
        doms.append((0, (1 << (w // 2)) - 1))                       # a narrow non-negative domain
        doms.append((1, 2))
    if signed and w >= 4:
        doms.append((-(1 << (w // 2)), (1 << (w // 2)) - 1))         # a narrow domain around zero
        doms.append((-3, 5))
        doms.append((-(1 << (w - 1)), -2))                            # negative values only
    for (lo, hi) in doms:
        b.domain.range_l[0][0], b.domain.range_l[0][1] = lo, hi
        rs_ = GhostRandState(c)
        sw = SW.SolveGroupSwizzlerPartsel(rs_, None)
        try:
            es = sw.create_rand_domain_constraint(f, b)
            nodes = [e.build(bt) for e in es]
        except GhostBtorError as ex:
            c.check("every emitted part-select lies inside the field (no Boolector precondition is violated)", False, info=repr(ex))
            return
        p = rs_.rng.draws[-1][2]
        c.check("one pattern draw from the RandState, inside the field's domain",
                And(len(rs_.rng.draws) == 1, p >= lo, p <= hi), info="domain [%d..%d]" % (lo, hi))
        conj = z3.BitVecVal(1, 1)
        for n in nodes:
            conj = conj & n.term
        tgt = z3.Extract(w - 1, 0, p.z) if z3.is_bv(p.z) else z3.Int2BV(p.z, w)
        c.check("C14: for every target value of the domain the steering constraints hold together exactly when the field equals "
                "the target (no two domain values compete for one target: each can be produced)",
                (conj == 1) == (f.var.term == tgt), info="domain [%d..%d] width %d signed %s" % (lo, hi, w, signed))
        c.check("all swizzle constraints are 1-bit nodes", all(n.width == 1 for n in nodes))


@contract("swizzler.swizzle_field.dist", ["C15", "C09"],
          ["vsc.model.solvegroup_swizzler_partsel.SolveGroupSwizzlerPartsel.swizzle_field"],
          lambda tier, seed: [(n, k) for n in (1, 2, 3) for k in (1, 2)], replay="none",
          note="dist branch of swizzle_field: 1..3 entries (ranges with symbolic bounds or single values), 1..2 dist scopes on the field")
def c_swizzle_dist(c, n, nscopes):
    import vsc.model.solvegroup_swizzler_partsel as SW
    from vsc.model.field_scalar_model import FieldScalarModel
    from vsc.model.rand_set import RandSet
    from vsc.model.constraint_dist_scope_model import ConstraintDistScopeModel
    from vsc.model.expr_bin_model import ExprBinModel
    from vsc.model.expr_fieldref_model import ExprFieldRefModel
    from vsc.model.expr_literal_model import ExprLiteralModel
    from vsc.model.bin_expr_type import BinExprType
    from contracts.bounds import ValStub

    class Wt:
        def __init__(self, lo, hi):
            self.rng_lhs = ValStub(lo)
            self.rng_rhs = ValStub(hi) if hi is not None else None

    class DistC:
        pass
    f = FieldScalarModel("f", 8, False, True)
    f.is_used_rand = True
    rs = RandSet()
    rs.add_field(f)
    scopes = []
    for s_i in range(nscopes):
        d = DistC()
        d.weights = []
        ents = []
        for i in range(n):
            lo = c.fresh_int("lo", 0, 255)
            if i % 2 == 0:
                hi = c.fresh_int("hi", 0, 255)
                c.assume(lo <= hi)
            else:
                hi = None
            ents.append((lo, hi))
            d.weights.append(Wt(lo, hi))
        sc = ConstraintDistScopeModel(d)
        sc.weight_list = [(c.fresh_int("w", 1), i) for i in range(n)]
        tot = lift(0)
        for wv, _ in sc.weight_list:
            tot = tot + wv
        sc.total_weight = tot
        sc.ents = ents
        scopes.append(sc)
    rs.dist_field_m[f] = scopes
    rs_ = GhostRandState(c)
    sw = SW.SolveGroupSwizzlerPartsel(rs_, None)
    ret = sw.swizzle_field(f, rs, {})
    c.check("the dist branch requests exactly one constraint `field == value`",
            isinstance(ret, list) and len(ret) == 1 and isinstance(ret[0], ExprBinModel) and ret[0].op is BinExprType.Eq
            and isinstance(ret[0].lhs, ExprFieldRefModel) and ret[0].lhs.fm is f and isinstance(ret[0].rhs, ExprLiteralModel))
    chosen = [sc for sc in scopes if any(d_[1] is sc.total_weight or True for d_ in rs_.rng.draws)]
    v = ret[0].rhs.val().v
    ok = []
    for sc in scopes:
        j = sc.target_range
        lo, hi = sc.ents[j] if isinstance(j, int) else (None, None)
    # the scope that was used is the one whose target_range was (re)drawn; with one scope it is scopes[0]
    cands = []
    for sc in scopes:
        for j, (lo, hi) in enumerate(sc.ents):
            cands.append(And(lift(sc.target_range) == j, v >= lo, v <= (hi if hi is not None else lo)))
    c.check("the requested value lies inside the entry chosen by the weighted walk of one of the field's dist scopes",
            Or(*cands))
    c.check("the literal carries the field's width and signedness", ret[0].rhs.width() == 8 and ret[0].rhs.is_signed() is False)
    exp_draws = (1 if nscopes > 1 else 0) + 1
    c.check("every draw comes from the RandState (scope choice if several, weighted walk, value inside a range)",
            exp_draws <= len(rs_.rng.draws) <= exp_draws + 1)


@contract("swizzler.swizzle_field_l.order", ["C09"],
          ["vsc.model.solvegroup_swizzler_partsel.SolveGroupSwizzlerPartsel.swizzle_field_l"],
          lambda tier, seed: [(nd, no) for nd in (0, 2, 3) for no in (0, 2, 5)], replay="none",
          note="steering order: rand sets with 0..3 dist fields and 0..5 other fields; the fields' hash values (which stand for "
               "their addresses) are permuted: the sequence of steered fields and of RandState draws must not depend on them")
def c_swizzle_order(c, ndist, nother):
    import itertools
    import vsc.model.solvegroup_swizzler_partsel as SW
    from vsc.model.field_scalar_model import FieldScalarModel
    from vsc.model.rand_set import RandSet
    if ndist + nother == 0:
        c.check("case skipped: empty rand set", True)
        return

    class HField(FieldScalarModel):
        """a field whose hash (the stand-in for its address) is chosen by the contract"""

        def __hash__(self):
            return self.h

        def __eq__(self, o):
            return self is o

    def run(hashes, debug=0):
        rs = RandSet()
        fl = []
        for i in range(ndist + nother):
            f = HField("f%d" % i, 8, False, True)
            f.h = hashes[i]
            f.is_used_rand = True
            rs.add_field(f)
            fl.append(f)
        for f in fl[:ndist]:
            rs.dist_field_m[f] = ["scope"]
        class FixedRng:
            """a deterministic stream: the same call history gives the same draws"""
            def __init__(self):
                self.draws = []

            def randint(self, lo, hi):
                v = lo + (len(self.draws) * 3) % (hi - lo + 1)
                self.draws.append((lo, hi, v))
                return v
        rng = FixedRng()
        sw = SW.SolveGroupSwizzlerPartsel(rng, None, debug=debug)
        order = []

        def fake_swizzle_field(f, rs_, bm):
            order.append(f.name)
            return None
        sw.swizzle_field = fake_swizzle_field
        bt = GhostBoolector(oracle=lambda b, asserted, assumed: True)       # nothing is asserted: always SAT
        import io
        import contextlib
        with contextlib.redirect_stdout(io.StringIO()):                     # debug > 0 prints a trace
            sw.swizzle_field_l(list(rs.rand_fields()), rs, {}, bt)
        return order, list(rng.draws)
    n = ndist + nother
    base = run(list(range(n)))
    c.check("every dist field is steered, in rand-set order, before the (at most four) other fields",
            base[0][:ndist] == ["f%d" % i for i in range(ndist)] and len(base[0]) == ndist + min(4, nother)
            and len(set(base[0])) == len(base[0]), info=repr(base[0]))
    for perm in (list(range(n))[::-1], [(i * 7 + 3) % 11 for i in range(n)], [5] * n):
        got = run(perm)
        c.check("C09: the order in which fields are steered and the draws made do not depend on the fields' hashes / addresses "
                "(same seed, same class, same history => same values whatever the memory layout)",
                got[0] == base[0] and got[1] == base[1], info="hashes %r: %r vs %r" % (perm, got[0], base[0]))
    for dbg in (1, 2):
        got = run(list(range(n)), debug=dbg)
        c.check("C09: the fields steered and the RandState draws made are the same whatever the debug setting (diagnostic settings "
                "do not change the values)", got[0] == base[0] and got[1] == base[1],
                info="debug=%d: %r / %d draws vs %r / %d draws" % (dbg, got[0], len(got[1]), base[0], len(base[1])))
