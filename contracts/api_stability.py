"""Bounded stand-in for the relational clauses of C09 that per-function contracts cannot decide: the same script is run in
fresh interpreters under different PYTHONHASHSEED values, with unrelated library activity and with diagnostic flags, and the
value sequences for a fixed RandState seed must be identical; restoring a snapshot must replay the values that followed it."""
import os
import sys
import json
import subprocess
from pyvc.contract import contract

HERE = os.path.dirname(os.path.dirname(os.path.abspath(__file__)))


def _run(mode, hashseed):
    env = dict(os.environ, PYTHONHASHSEED=str(hashseed), PYTHONDONTWRITEBYTECODE="1")
    r = subprocess.run([sys.executable, os.path.join(HERE, "bounded", "stability_script.py"), mode], capture_output=True, text=True,
                       env=env, timeout=900)
    line = [l for l in r.stdout.splitlines() if l.startswith("{")]
    if not line:
        raise RuntimeError("stability script failed (%s, %s): %s" % (mode, hashseed, (r.stdout + r.stderr)[-800:]))
    return json.loads(line[-1])


@contract("api_stability.family", ["C09"],
          ["vsc.model.rand_info_builder.RandInfoBuilder.build", "vsc.model.rand_set.RandSet.add_field", "vsc.model.randomizer.Randomizer.randomize",
           "vsc.model.rand_state.RandState.clone", "vsc.rand_obj._randobj.__call__"],
          lambda tier, seed: [(m,) for m in ("plain", "noise", "debug", "sfd")], kind="bounded", replay="none",
          bound="one object mixing soft, dist, solve_order, unique, foreach, enum and unconstrained fields; 8 calls (randomize and "
                "randomize_with) from RandState seed 1234; fresh interpreters with PYTHONHASHSEED in {0, 1, 31337}; disturbances: other "
                "objects' randomizations + global random use + allocations, debug=1, solve_fail_debug=1; snapshot after call 3 replayed twice")
def c_stability(c, mode):
    base = _run("plain", 0)
    c.check("C09: the reference run produced 8 value tuples", len(base["seq"]) == 8)
    for hs in (0, 1, 31337):
        if mode == "plain" and hs == 0:
            continue
        r = _run(mode, hs)
        c.check("C09: same seed, class and call history => same values across processes, hash seeds, unrelated activity and "
                "diagnostic settings", r["seq"] == base["seq"], info="mode=%s PYTHONHASHSEED=%s\n got %r\nwant %r" % (mode, hs, r["seq"], base["seq"]))
        c.check("C09: restoring a snapshot replays exactly the values that followed it; one RandState seeds several replays",
                r["replays"][0] == base["seq"][4:] and r["replays"][1] == base["seq"][4:],
                info="replays %r want %r" % (r["replays"], base["seq"][4:]))
        c.check("C09: a state made from a numeric seed and a string is the same in every process", r["named"] == base["named"],
                info="got %r want %r" % (r["named"], base["named"]))
        c.check("C09: without an explicit state the values are fixed by Python's global random seed", r["default"] == base["default"])
