"""C01-L / C02 exception-freedom: per-node lowering contracts against the ghost Boolector.

G-EXPR (generic expression contract, the induction hypothesis for children): width() >= 1; is_signed() is a bool;
build(btor, cw) raises nothing and returns a node of width `width()` (self-sized kinds: field reference, part-select,
comparison, `in`, unary not) or exactly max(width(), cw) (context-sized kinds: arithmetic/bitwise binary node, literal)
whose term is the R-EXPR value of the expression at that width.  Children are stubs satisfying G-EXPR whose term is a
fresh bit-vector, so each contract is one step of a structural induction over expression trees.

R-EXPR is written here from the property statement / IEEE 1800 rules, independently of pyvsc's code.
"""
import itertools
import z3
from pyvc.contract import contract, widths
from pyvc.sym import And, Or, Not, Implies, Ite, Iff, SymInt, SymBool, lift, wrap
from pyvc.ghost_btor import GhostBoolector, Node, GhostBtorError, b1


class EStub:
    """an abstract expression satisfying G-EXPR"""
    n = 0

    def __init__(self, w, signed, kind="self", name=None):
        EStub.n += 1
        self.w = w
        self.s = signed
        self.kind = kind
        self.name = "%s.%d" % (name or "e", EStub.n)
        self.cws = []
        self.srcinfo = None

    def width(self):
        return self.w

    def is_signed(self):
        return self.s

    def build(self, btor, ctx_width=-1):
        self.cws.append(ctx_width)
        W = self.w if self.kind == "self" else max(self.w, ctx_width)
        self.node = Node(W, z3.BitVec("%s@%d" % (self.name, W), W), btor, tag=self.name)
        return self.node

    def accept(self, v):
        raise AssertionError("stub visited")


def ext(t, W, signed):
    n = W - t.size()
    if n <= 0:
        return t
    return z3.SignExt(n, t) if signed else z3.ZeroExt(n, t)


ARITH = ["Add", "Sub", "Mul", "Div", "Mod", "And", "Or", "Xor", "Sll", "Srl"]
REL = ["Eq", "Ne", "Gt", "Ge", "Lt", "Le"]


def ref_bin(op, lt, rt, sgn, W):
    """R-EXPR of `l op r` at width W given the children's terms (already at their delivered widths)"""
    l = ext(lt, W, sgn)
    r = ext(rt, W, sgn)
    if op == "Add":
        return l + r
    if op == "Sub":
        return l - r
    if op == "Mul":
        return l * r
    if op == "Div":
        return (l / r) if sgn else z3.UDiv(l, r)
    if op == "Mod":
        return z3.SRem(l, r) if sgn else z3.URem(l, r)
    if op == "And":
        return l & r
    if op == "Or":
        return l | r
    if op == "Xor":
        return l ^ r
    if op == "Sll":
        return l << r
    if op == "Srl":
        return z3.LShR(l, r)
    if op == "Eq":
        return b1(l == r)
    if op == "Ne":
        return b1(l != r)
    if op == "Gt":
        return b1(l > r) if sgn else b1(z3.UGT(l, r))
    if op == "Ge":
        return b1(l >= r) if sgn else b1(z3.UGE(l, r))
    if op == "Lt":
        return b1(l < r) if sgn else b1(z3.ULT(l, r))
    if op == "Le":
        return b1(l <= r) if sgn else b1(z3.ULE(l, r))
    raise AssertionError(op)


def bin_api(params, ob):
    """public-API scenario of a failed ExprBinModel obligation (field operands only)"""
    import re
    op, ls, rs, lk, rk = params[:5]
    if lk != "self" or rk != "self" or not isinstance(ob.get("model"), dict):
        return None
    m = re.search(r"lw=(\d+) rw=(\d+) cw=(-?\d+)", ob.get("info") or "")
    if not m or int(m.group(3)) != -1:
        return None
    lv = rv = None
    for k, v in ob["model"].items():
        if k.startswith("l."):
            lv = v
        if k.startswith("r."):
            rv = v
    if lv is None or rv is None:
        return None
    return {"kind": "bin", "op": op, "lw": int(m.group(1)), "rw": int(m.group(2)), "ls": ls, "rs": rs, "lv": lv, "rv": rv}


def bin_cases(tier, seed):
    out = []
    for op in ARITH + REL:
        for ls in (False, True):
            for rs in (False, True):
                for lk in ("self", "ctx"):
                    for rk in ("self", "ctx"):
                        out.append((op, ls, rs, lk, rk, _wl(tier, seed)))
    return out


def _wl(tier, seed):
    if tier == "thorough":
        return [1, 2, 3, 4, 7, 8, 9, 15, 16, 17, 24, 31, 32, 33, 48, 63, 64]
    return widths(tier, seed, quick=[1, 2, 8, 32, 33, 64])


@contract("expr_bin.build", ["C01", "C02"],
          ["vsc.model.expr_bin_model.ExprBinModel.build", "vsc.model.expr_bin_model.ExprBinModel.extend",
           "vsc.model.expr_bin_model.ExprBinModel.width", "vsc.model.expr_bin_model.ExprBinModel.is_signed"],
          bin_cases, replay="api", api=bin_api, timeout_ms=60000,
          note="ExprBinModel: 16 operators x operand signedness x child kind (self-sized / context-sized) x operand widths "
               "(tier set)^2 x incoming context {-1, 1, max+1, 64, 65} (comparisons: {-1, 1}; a comparison is a self-sized "
               "unsigned 1-bit operand of its parent, which is the child kind 'self' of width 1)")
def c_bin_build(c, op, ls, rs, lk, rk, tier_ws):
    from vsc.model.expr_bin_model import ExprBinModel
    from vsc.model.bin_expr_type import BinExprType
    bt = GhostBoolector()
    sgn = ls and rs
    for lw in tier_ws:
        for rw in tier_ws:
            m = max(lw, rw)
            cws = [-1, 1] if op in REL else sorted({-1, 1, m + 1, 64, 65})
            for cw in cws:
                if op in REL and cw > m:
                    continue
                L = EStub(lw, ls, lk, "l")
                R = EStub(rw, rs, rk, "r")
                e = ExprBinModel(L, BinExprType[op], R)
                tag = "[lw=%d rw=%d cw=%d]" % (lw, rw, cw)
                try:
                    n = e.build(bt, cw)
                except (GhostBtorError, TypeError) as ex:
                    c.check("build raises nothing (Boolector preconditions hold)", False, info=tag + " " + repr(ex))
                    continue
                W = max(lw, rw, cw)
                c.check("children are built in the node's context width max(lw, rw, cw)",
                        L.cws == [W] and R.cws == [W], info=tag)
                c.check("result width: 1 for comparisons, context width for arithmetic/bitwise",
                        n.width == (1 if op in REL else W), info=tag)
                want = ref_bin(op, L.node.term, R.node.term, sgn, W)
                if n.term.size() == want.size():
                    goal = n.term == want
                    if op in ("Div", "Mod"):      # x/0 and x%0 have no documented meaning: left unspecified
                        goal = z3.Implies(ext(R.node.term, W, sgn) != 0, goal)
                    c.check("node term == R-EXPR(l %s r) for all operand values" % op, goal, info=tag)
                c.check("width() == 1 / max(lw, rw)", e.width() == (1 if op in REL else m), info=tag)
                c.check("is_signed(): an arithmetic/bitwise node is signed iff both operands are; the result of a comparison is an "
                        "unsigned single bit (a parent that widens it must zero-extend: true is 1, never -1)",
                        e.is_signed() is (False if op in REL else sgn), info=tag)


def lit_cases(tier, seed):
    return [(w, s) for w in _wl(tier, seed) for s in (False, True)]


@contract("expr_literal.build", ["C01", "C02"], ["vsc.model.expr_literal_model.ExprLiteralModel.build",
                                                 "vsc.model.expr_literal_model.ExprLiteralModel.width",
                                                 "vsc.model.expr_literal_model.ExprLiteralModel.is_signed"], lit_cases,
          replay="none")
def c_literal(c, w, signed):
    from vsc.model.expr_literal_model import ExprLiteralModel
    v = c.fresh_int("v")
    if signed:
        c.assume(And(v >= -(1 << (w - 1)), v < (1 << (w - 1))))
    else:
        c.assume(And(v >= 0, v < (1 << w)))
    bt = GhostBoolector()
    e = ExprLiteralModel(v, signed, w)
    for cw in sorted({-1, 1, w, w + 1, 64, 65}):
        try:
            n = e.build(bt, cw)
        except GhostBtorError as ex:
            c.check("literal inside its declared type builds without raising", False, info="cw=%d %r" % (cw, ex))
            continue
        W = max(w, cw)
        c.check("literal node has width max(width, cw)", n.width == W)
        c.check("literal term == value mod 2**W", n.term == z3.Int2BV(v.z, W))
    c.check("width()/is_signed() return the declared type", e.width() == w and e.is_signed() is signed)


def psel_cases(tier, seed):
    out = []
    for w in _wl(tier, seed):
        cand = sorted({0, 1, w // 2, w - 2, w - 1} & set(range(w))) if tier != "thorough" else list(range(w))
        for hi in cand:
            for lo in cand:
                if lo <= hi:
                    out.append((w, hi, lo))
    return out


class LitStub:
    """index literal of a part-select (val() is what the real code reads)"""

    def __init__(self, v):
        from vsc.model.value_scalar import ValueScalar
        self.v = ValueScalar(v)

    def val(self):
        return self.v


@contract("expr_partselect.build", ["C01", "C02"],
          ["vsc.model.expr_partselect_model.ExprPartselectModel.build", "vsc.model.expr_partselect_model.ExprPartselectModel.width",
           "vsc.model.expr_partselect_model.ExprPartselectModel.is_signed"], psel_cases, replay="none")
def c_partselect(c, w, hi, lo):
    from vsc.model.expr_partselect_model import ExprPartselectModel
    bt = GhostBoolector()
    for s in (False, True):
        base = EStub(w, s, "self", "f")
        e = ExprPartselectModel(base, LitStub(hi), LitStub(lo))
        n = e.build(bt, 64)
        c.check("a[hi:lo] has width hi-lo+1 and is the unsigned slice", And(n.width == hi - lo + 1,
                                                                          n.term == z3.Extract(hi, lo, base.node.term)))
        c.check("width()/is_signed()", int(e.width()) == hi - lo + 1 and e.is_signed() is False)
        if hi == lo:
            e1 = ExprPartselectModel(base, LitStub(hi))
            n1 = e1.build(bt)
            c.check("a[i] is bit i", And(n1.width == 1, n1.term == z3.Extract(hi, hi, base.node.term)))
            c.check("a[i] width() == 1", int(e1.width()) == 1)


@contract("expr_unary.build", ["C01", "C02"], ["vsc.model.expr_unary_model.ExprUnaryModel.build",
                                               "vsc.model.expr_unary_model.ExprUnaryModel.width",
                                               "vsc.model.expr_unary_model.ExprUnaryModel.is_signed"],
          lambda tier, seed: [(s,) for s in (False, True)], replay="none",
          note="unary not: operand is a 1-bit (Boolean) expression; multi-bit ~ has no documented meaning and is excluded by "
               "precondition")
def c_unary(c, s):
    from vsc.model.expr_unary_model import ExprUnaryModel
    from vsc.model.unary_expr_type import UnaryExprType
    bt = GhostBoolector()
    ch = EStub(1, s, "self", "p")
    e = ExprUnaryModel(UnaryExprType.Not, ch)
    n = e.build(bt)
    c.check("~e is the Boolean negation, 1 bit", And(n.width == 1, n.term == ~ch.node.term))
    c.check("width() == 1", e.width() == 1)
    r = e.is_signed()
    c.check("is_signed() answers with a bool (every node must, for its parent to build)", isinstance(r, bool))


@contract("expr_model.toBool+constraint_expr.build", ["C01", "C02"],
          ["vsc.model.expr_model.ExprModel.toBool", "vsc.model.constraint_expr_model.ConstraintExprModel.build"],
          lambda tier, seed: [(w,) for w in _wl(tier, seed)], replay="none")
def c_tobool(c, w):
    from vsc.model.constraint_expr_model import ConstraintExprModel
    bt = GhostBoolector()
    for kind in ("self", "ctx"):
        ch = EStub(w, False, kind, "e")
        st = ConstraintExprModel(ch)
        n = st.build(bt, False)
        c.check("statement node is 1 bit and true iff the expression is non-zero",
                And(n.width == 1, n.term == (ch.node.term if ch.node.width == 1 else b1(ch.node.term != 0))))


class CStub:
    """abstract constraint statement satisfying G-STMT: 1-bit node, or None for a soft statement built with soft=False"""
    n = 0

    def __init__(self, is_soft=False):
        CStub.n += 1
        self.name = "c%d" % CStub.n
        self.is_soft = is_soft
        self.calls = []

    def build(self, btor, soft=False):
        self.calls.append(soft)
        if self.is_soft and not soft:
            self.node = None
        else:
            self.node = Node(1, z3.BitVec(self.name, 1), btor, tag=self.name)
        return self.node


def conj(nodes):
    t = z3.BitVecVal(1, 1)
    for n in nodes:
        t = t & n.term
    return t


@contract("constraint_scope.build", ["C01", "C05"], ["vsc.model.constraint_scope_model.ConstraintScopeModel.build"],
          lambda tier, seed: [(list(sh),) for k in range(0, 5) for sh in itertools.product((False, True), repeat=k)],
          replay="none", note="scope fold: every shape of <= 4 children (hard / soft) and, for any length, the cut loop step")
def c_scope(c, shape):
    from vsc.model.constraint_scope_model import ConstraintScopeModel
    for soft in (False, True):
        bt = GhostBoolector()
        ch = [CStub(is_soft=s) for s in shape]
        sc = ConstraintScopeModel(ch)
        n = sc.build(bt, soft)
        live = [x.node for x in ch if x.node is not None]
        c.check("scope == conjunction of its non-None children (empty: true); every child built once with the same `soft`",
                And(n is not None and n.width == 1, n.term == conj(live), all(x.calls == [soft] for x in ch)))
        if not soft:
            c.check("soft statements contribute nothing to the hard formula",
                    n.term == conj([x.node for x in ch if not x.is_soft]))


@contract("constraint_scope.build.step", ["C01"], ["vsc.model.constraint_scope_model.ConstraintScopeModel.build"],
          lambda tier, seed: [(a, b) for a in ("none", "node") for b in ("none", "node")], replay="none",
          note="cut loop 0 of ConstraintScopeModel.build: invariant `ret is None or ret == conjunction of the non-None "
               "children seen so far` (any number of children)")
def c_scope_step(c, a, b):
    from vsc.model.constraint_scope_model import ConstraintScopeModel
    from pyvc.cut import loop_step
    ls = loop_step(ConstraintScopeModel.__dict__["build"], 0)
    c.check("anchor: loop 0 iterates over self.constraint_l", ls is not None and ls[1] == "self.constraint_l")
    step = ls[0]
    bt = GhostBoolector()
    ret = None if a == "none" else Node(1, z3.BitVec("acc", 1), bt)
    ch = CStub(is_soft=(b == "none"))
    st, ctl, _ = step({"ret": ret, "btor": bt, "soft": False, "self": None}, ch)
    r2 = st["ret"]
    if a == "none" and b == "none":
        c.check("None stays None", r2 is None)
    elif a == "none":
        c.check("first non-None child becomes the accumulator", r2 is not None and r2.term is ch.node.term)
    elif b == "none":
        c.check("a None child leaves the accumulator unchanged", r2 is ret)
    else:
        c.check("accumulator' == accumulator AND child", And(r2.width == 1, r2.term == (ret.term & ch.node.term)))


@contract("constraint_if_else.build", ["C01", "C05"], ["vsc.model.constraint_if_else_model.ConstraintIfElseModel.build"],
          lambda tier, seed: [(w, e) for w in (1, 8, 64) for e in (False, True)], replay="none")
def c_ifelse(c, w, has_else):
    from vsc.model.constraint_if_else_model import ConstraintIfElseModel
    bt = GhostBoolector()
    cond = EStub(w, False, "self", "g")
    t = CStub()
    f = CStub() if has_else else None
    st = ConstraintIfElseModel(cond, t, f)
    n = st.build(bt, False)
    g = cond.node.term if w == 1 else b1(cond.node.term != 0)
    want = z3.If(g == 1, t.node.term, f.node.term) if has_else else (~g | t.node.term)
    c.check("if/else node: guard ? then : else (no else: guard -> then)", And(n.width == 1, n.term == want))


@contract("constraint_implies.build", ["C01", "C05"], ["vsc.model.constraint_implies_model.ConstraintImpliesModel.build"],
          lambda tier, seed: [(w, k) for w in (1, 8, 64) for k in (0, 1, 3)], replay="none")
def c_implies(c, w, k):
    from vsc.model.constraint_implies_model import ConstraintImpliesModel
    bt = GhostBoolector()
    cond = EStub(w, False, "self", "g")
    body = [CStub() for _ in range(k)]
    st = ConstraintImpliesModel(cond, body)
    n = st.build(bt, False)
    g = cond.node.term if w == 1 else b1(cond.node.term != 0)
    c.check("implies node: guard -> conjunction of the body", And(n.width == 1, n.term == (~g | conj([b.node for b in body]))))


def uniq_cases(tier, seed):
    out = []
    ws = [1, 8, 33]
    for k in (0, 1, 2, 3, 4):
        for wsel in itertools.islice(itertools.product(ws, repeat=k), 0, 12):
            for sg in ((False,) * k, (True,) * k, tuple(i % 2 == 0 for i in range(k))):
                out.append((list(wsel), list(sg)))
    return out


@contract("constraint_unique.build", ["C01", "C04"], ["vsc.model.constraint_unique_model.ConstraintUniqueModel.build"],
          uniq_cases, replay="none", kind="proof", note="unique over <= 4 operands of mixed widths/signs")
def c_unique(c, ws, sg):
    from vsc.model.constraint_unique_model import ConstraintUniqueModel
    bt = GhostBoolector()
    ops = [EStub(w, s, "self", "u%d" % i) for i, (w, s) in enumerate(zip(ws, sg))]
    st = ConstraintUniqueModel(ops)
    n = st.build(bt, False)
    k = len(ops)
    t = z3.BitVecVal(1, 1)
    for i in range(k):
        for j in range(i + 1, k):
            W = max(ws[i], ws[j])
            t = t & ref_bin("Ne", ops[i].node.term, ops[j].node.term, sg[i] and sg[j], W)
    c.check("unique == pairwise != over all operands", And(n.width == 1, n.term == t))


@contract("types.to_expr.int_literal", ["C01", "C02"], ["vsc.types.to_expr", "vsc.model.expr_literal_model.ExprLiteralModel.build"],
          lambda tier, seed: [(v,) for v in (0, 1, -1, 2**31 - 1, 2**31, -2**31, -2**31 - 1, 2**32 - 1, 2**32, 2**32 + 5, -2**32,
                                             0x1200000034, 2**63, 2**64 - 1, 2**64, -2**64, 2**100 + 3)], replay="none",
          note="a Python integer used as an operand becomes a signed literal that is at least 32 bits wide, holds the value as a two's "
               "complement number and builds without violating a Boolector precondition - also outside the 32-bit range (boundary "
               "values up to 2^100)")
def c_to_expr_int(c, v):
    import vsc.types as T
    from vsc.impl import ctor
    from vsc.model.expr_literal_model import ExprLiteralModel
    ctor.clear_exprs()
    T.to_expr(v)
    em = ctor.pop_expr()
    ctor.clear_exprs()
    c.check("an integer operand becomes a literal", isinstance(em, ExprLiteralModel))
    w = em.width()
    c.check("the literal is signed and at least 32 bits wide", em.is_signed() is True and w >= 32, info="width %r" % (w,))
    c.check("C01: the literal's width holds the value as a two's complement number", -(1 << (w - 1)) <= v < (1 << (w - 1)),
            info="value %d width %d" % (v, w))
    c.check("values inside the signed 32-bit range keep the 32-bit width (R-EXPR literal rule)", w == 32 if -(1 << 31) <= v < (1 << 31) else True)
    bt = GhostBoolector()
    try:
        n = em.build(bt)                     # the ghost raises where Boolector would ("exceeds bit width")
    except GhostBtorError as e:
        c.check("C02: building the literal violates no Boolector precondition (no foreign exception)", False, info=str(e))
        return
    c.check("C02: building the literal violates no Boolector precondition (no foreign exception)", True)
    c.check("C02: the literal builds to the constant v at its own width", And(n.width == w, n.term == z3.BitVecVal(v, w)))
    for cw in (w + 7, 128):
        if cw > w:
            n = em.build(bt, cw)
            c.check("built in a wider context the constant still denotes v", And(n.width == cw, n.term == z3.BitVecVal(v, cw)))


def uniq_list_cases(tier, seed):
    shapes = ["l", "sl", "ls", "ll", "sls", "lsl", "ssl", "lls"]
    out = []
    for sh in shapes:
        for sz in ((0, 1), (2, 1), (1, 3), (2, 2)):
            for sgn in (False, True):
                out.append((sh, list(sz), sgn))
    return out


@contract("constraint_unique.build.lists", ["C01", "C04", "C02"],
          ["vsc.model.constraint_unique_model.ConstraintUniqueModel.build"],      # helpers it calls are executed, not anchored
          uniq_list_cases, replay="none",
          note="unique over scalars (s) and lists (l) in every order up to three operands, lists of 0..3 elements (first/second "
               "list sizes given), scalars 5 bits wide and list elements 8: compared with R-EXPR - pairwise != over all scalars and "
               "all elements of all lists, whatever the order in which they are named")
def c_unique_lists(c, shape, sizes, sgn):
    from vsc.model.constraint_unique_model import ConstraintUniqueModel
    from vsc.model.field_array_model import FieldArrayModel
    from vsc.model.field_composite_model import FieldCompositeModel
    from vsc.model.field_scalar_model import FieldScalarModel
    from vsc.model.expr_fieldref_model import ExprFieldRefModel
    bt = GhostBoolector()
    root = FieldCompositeModel("o", True)
    ops, flat = [], []
    nl = 0
    for i, k in enumerate(shape):
        if k == "s":
            f = root.add_field(FieldScalarModel("s%d" % i, 5, sgn, True))
            ops.append(ExprFieldRefModel(f))
            flat.append((f, 5))
        else:
            class T:
                width = 8
            a = root.add_field(FieldArrayModel("l%d" % i, T(), True, None, 8, sgn, True, False))
            for _ in range(sizes[nl % len(sizes)]):
                a.add_field()
            nl += 1
            ops.append(ExprFieldRefModel(a))
            flat.extend((f, 8) for f in a.field_l)
    root.set_used_rand(True, 0)
    for f, _w in flat:
        f.build(bt)
    n = ConstraintUniqueModel(ops).build(bt, False)
    want = z3.BitVecVal(1, 1)
    for i in range(len(flat)):
        for j in range(i + 1, len(flat)):
            want = want & ref_bin("Ne", flat[i][0].var.term, flat[j][0].var.term, sgn, max(flat[i][1], flat[j][1]))
    c.check("unique == pairwise != over every scalar and every element of every list named, in any order",
            And(n.width == 1, n.term == want), info="%d values" % len(flat))


@contract("constraint_soft.build+override.build", ["C01", "C05"],
          ["vsc.model.constraint_soft_model.ConstraintSoftModel.build", "vsc.model.constraint_override_model.ConstraintOverrideModel.build"],
          lambda tier, seed: [()], replay="none")
def c_soft(c):
    from vsc.model.constraint_soft_model import ConstraintSoftModel
    from vsc.model.constraint_override_model import ConstraintOverrideModel
    from vsc.model.expr_model import ExprModel
    bt = GhostBoolector()

    class E(ExprModel):
        def build(s, btor, cw=-1):
            s.node = Node(1, z3.BitVec("s", 1), btor)
            return s.node
    e = E()
    st = ConstraintSoftModel(e)
    c.check("soft statement built with soft=False yields None (nothing for the hard formula)", st.build(bt, False) is None)
    c.check("soft statement built with soft=True yields its expression's node", st.build(bt, True) is e.node)
    a, b = CStub(), CStub()
    ov = ConstraintOverrideModel(a, b)
    n = ov.build(bt, False)
    c.check("an override builds the replacement, not the original", n is b.node and a.calls == [])


# ---- fields ------------------------------------------------------------------------------------------
@contract("field_scalar.build", ["C01", "C03"], ["vsc.model.field_scalar_model.FieldScalarModel.build",
                                                 "vsc.model.field_scalar_model.FieldScalarModel.dispose"],
          lambda tier, seed: [(w, s) for w in _wl(tier, seed) for s in (False, True)], replay="none")
def c_field_build(c, w, signed):
    from vsc.model.field_scalar_model import FieldScalarModel
    bt = GhostBoolector()
    f = FieldScalarModel("f", w, signed, True)
    f.is_used_rand = True
    n = f.build(bt)
    c.check("used-rand field: a fresh solver variable of the declared width", n.width == w and n.tag.startswith("var"))
    c.check("build is idempotent within a solve (same variable)", f.build(bt) is n)
    f.dispose()
    c.check("dispose drops the solver handle", f.var is None)
    g = FieldScalarModel("g", w, signed, False)
    g.is_used_rand = False
    v = c.fresh_int("v")
    c.assume(And(v >= -(1 << (w - 1)), v < (1 << (w - 1))) if signed else And(v >= 0, v < (1 << w)))
    g.val.v = v
    try:
        m = g.build(bt)
    except GhostBtorError as ex:
        c.check("non-rand field with an in-type value builds without raising", False, info=repr(ex))
        return
    c.check("non-rand field enters the solver as the constant val mod 2**w", And(m.width == w, m.term == z3.Int2BV(v.z, w)))


@contract("field_scalar.post_randomize", ["C01", "C03"], ["vsc.model.field_scalar_model.FieldScalarModel.post_randomize"],
          lambda tier, seed: [(w, s) for w in widths(tier, seed) for s in (False, True)], replay="none")
def c_field_post(c, w, signed):
    from vsc.model.field_scalar_model import FieldScalarModel
    bt = GhostBoolector(oracle=lambda b, a, s: True)
    f = FieldScalarModel("f", w, signed, True)
    f.is_used_rand = True
    f.build(bt)
    bt.Sat()
    old = c.fresh_int("old")
    f.val.v = old
    f.post_randomize([])
    u = list(bt.model_values.values())[0]
    c.check("readback: val == wrap(unsigned model value, w, signed), hence inside the declared type",
            lift(f.val.v) == wrap(u, w, signed))
    g = FieldScalarModel("g", w, signed, False)
    g.val.v = old
    g.post_randomize([])
    c.check("a field without a solver variable keeps its value", lift(g.val.v) == old)


@contract("enum_field.build", ["C01"], ["vsc.model.enum_field_model.EnumFieldModel.build"],
          lambda tier, seed: [(k,) for k in (1, 2, 3, 5)], replay="none",
          note="enum field: symbolic enumerator lists of length 1,2,3,5 (32-bit signed values)")
def c_enum_build(c, k):
    from vsc.model.enum_field_model import EnumFieldModel
    es = [c.fresh_int("e", -(1 << 31), (1 << 31) - 1) for _ in range(k)]
    bt = GhostBoolector()
    f = EnumFieldModel("e", list(es), True)
    f.is_used_rand = True
    n = f.build(bt)
    c.check("one assertion restricts the variable", len(bt.asserted) == 1)
    want = z3.Or(*[n.term == z3.Int2BV(e.z, 32) for e in es])
    c.check("asserted node <=> variable equals a declared enumerator", bt.asserted[0].term == b1(want))


# ---- membership, references, dist hard formula ----------------------------------------------------------------------------
def in_cases(tier, seed):
    ws = [(4, False), (8, True), (32, False), (33, True)]
    shapes = [["r"], ["v"], ["r", "v"], ["v", "r", "r"], []]
    return [(w, s, sh, ew, es) for (w, s) in ws for sh in shapes for (ew, es) in ((w, s), (32, True))]


@contract("expr_in.build", ["C01", "C15"], ["vsc.model.expr_in_model.ExprInModel.build", "vsc.model.expr_in_model.ExprInModel.width",
                                            "vsc.model.expr_in_model.ExprInModel.is_signed"], in_cases, replay="none",
          note="`in`: left operand and range-list entries are abstract expressions (same type as the operand, or 32-bit signed "
               "literals); 0..3 entries, ranges and single values in any order")
def c_in_build(c, w, s, shape, ew, es):
    from vsc.model.expr_in_model import ExprInModel
    from vsc.model.expr_rangelist_model import ExprRangelistModel
    from vsc.model.expr_range_model import ExprRangeModel
    bt = GhostBoolector()
    lhs = EStub(w, s, "self", "x")
    ents = []
    rl = ExprRangelistModel()
    kind = "ctx" if (ew, es) == (32, True) else "self"
    for i, k in enumerate(shape):
        if k == "r":
            lo, hi = EStub(ew, es, kind, "lo%d" % i), EStub(ew, es, kind, "hi%d" % i)
            rl.add_range(ExprRangeModel(lo, hi))
            ents.append((lo, hi))
        else:
            v = EStub(ew, es, kind, "v%d" % i)
            rl.add_range(v)
            ents.append((v,))
    e = ExprInModel(lhs, rl)
    n = e.build(bt)
    W = max(w, ew)
    sg = s and es
    X = z3.BitVec("%s@%d" % (lhs.name, w), w)

    def T(st):
        wd = st.w if st.kind == "self" else max(st.w, W)
        return z3.BitVec("%s@%d" % (st.name, wd), wd)
    want = z3.BitVecVal(0, 1)
    for en in ents:
        if len(en) == 2:
            t = ref_bin("Ge", X, T(en[0]), sg, W) & ref_bin("Le", X, T(en[1]), sg, W)
        else:
            t = ref_bin("Eq", X, T(en[0]), sg, W)
        want = want | t
    # (no entries: the empty disjunction - nothing is a member of an empty set)
    c.check("x in rangelist == disjunction of (lo <= x and x <= hi) / (x == v) under R-EXPR comparison rules",
            And(n.width == 1, n.term == want))
    c.check("width() == 1 and is_signed() is False", e.width() == 1 and e.is_signed() is False)


@contract("expr_refs.build", ["C01", "C08"],
          ["vsc.model.expr_fieldref_model.ExprFieldRefModel.build", "vsc.model.expr_indexed_field_ref_model.ExprIndexedFieldRefModel.build",
           "vsc.model.expr_array_subscript_model.ExprArraySubscriptModel.build", "vsc.model.expr_array_subscript_model.ExprArraySubscriptModel.width",
           "vsc.model.expr_array_subscript_model.ExprArraySubscriptModel.subscript",
           "vsc.model.expr_indexed_field_ref_model.ExprIndexedFieldRefModel.width"],
          lambda tier, seed: [(w, s) for w in (1, 8, 33) for s in (False, True)], replay="none")
def c_refs(c, w, s):
    from vsc.model.field_scalar_model import FieldScalarModel
    from vsc.model.field_composite_model import FieldCompositeModel
    from vsc.model.field_array_model import FieldArrayModel
    from vsc.model.expr_fieldref_model import ExprFieldRefModel
    from vsc.model.expr_indexed_field_ref_model import ExprIndexedFieldRefModel
    from vsc.model.expr_array_subscript_model import ExprArraySubscriptModel
    from vsc.model.expr_literal_model import ExprLiteralModel
    bt = GhostBoolector()
    root = FieldCompositeModel("o", True)
    sub = root.add_field(FieldCompositeModel("s", True))
    f0 = sub.add_field(FieldScalarModel("f0", w, s, True))
    f1 = sub.add_field(FieldScalarModel("f1", w, s, True))

    class T:
        width = w
    arr = root.add_field(FieldArrayModel("l", T(), True, None, w, s, True, False))
    for _ in range(3):
        arr.add_field()
    root.set_used_rand(True, 0)
    for f in [f0, f1] + arr.field_l:
        f.build(bt)
    r = ExprFieldRefModel(f1)
    c.check("a field reference is the field's own solver node, with the field's width and sign",
            r.build(bt) is f1.var and r.width() == w and r.is_signed() is s)
    ir = ExprIndexedFieldRefModel(ExprFieldRefModel(root), [0, 1])
    c.check("an indexed reference builds the node of exactly root.field_l[0].field_l[1]",
            ir.build(bt) is f1.var and ir.width() == w and ir.is_signed() is s)
    for i in range(3):
        sb = ExprArraySubscriptModel(ExprFieldRefModel(arr), ExprLiteralModel(i, False, 32))
        c.check("list[i] builds the node of exactly element i", sb.build(bt) is arr.field_l[i].var and sb.width() == w and sb.is_signed() is s)
    # the element is resolved from the list at every use: replacing element 1 re-targets an existing list[1] expression
    sb1 = ExprArraySubscriptModel(ExprFieldRefModel(arr), ExprLiteralModel(1, False, 32))
    old1 = arr.field_l[1]
    c.check("list[1] denotes element 1 (subscript() and getFieldModel())", sb1.subscript() is old1 and sb1.getFieldModel() is old1)
    new1 = FieldScalarModel("l[1]'", w, s, True)
    arr.set_field(1, new1)
    new1.build(bt)
    c.check("after the element at index 1 was replaced, the same list[1] expression denotes and builds the new element",
            sb1.subscript() is new1 and sb1.getFieldModel() is new1 and sb1.build(bt) is new1.var)
    g = FieldScalarModel("g", w, s, True)
    try:
        ExprFieldRefModel(g).build(bt)
        c.check("a reference to a field that was not built is rejected (never a silent fresh node)", False)
    except Exception:
        c.check("a reference to a field that was not built is rejected (never a silent fresh node)", True)


def dist_cases(tier, seed):
    out = []
    for k in (1, 2, 3):
        for kinds in itertools.product(("v", "r"), repeat=k):
            for zeros in itertools.product((False, True), repeat=k):
                out.append((list(kinds), list(zeros)))
    return out if tier == "thorough" else out[::2]


@contract("dist_constraint_builder.visit_constraint_dist", ["C15", "C09"],
          ["vsc.visitors.dist_constraint_builder.DistConstraintBuilder.visit_constraint_dist",
           "vsc.model.constraint_dist_scope_model.ConstraintDistScopeModel.next_target_range"], dist_cases, replay="none",
          note="dist rewrite: 1..3 entries (values / ranges), every pattern of zero weights; entry bounds are abstract expressions, "
               "weights non-random values; the scope's node is compared with the R-EXPR formula")
def c_dist_builder(c, kinds, zeros):
    from vsc.visitors.dist_constraint_builder import DistConstraintBuilder
    from vsc.model.constraint_dist_model import ConstraintDistModel
    from vsc.model.dist_weight_expr_model import DistWeightExprModel
    from vsc.model.constraint_block_model import ConstraintBlockModel
    from vsc.model.constraint_override_model import ConstraintOverrideModel
    from vsc.model.constraint_dist_scope_model import ConstraintDistScopeModel
    from vsc.model.expr_literal_model import ExprLiteralModel
    from pyvc.ghost import GhostRandState
    W = 8
    lhs = EStub(W, False, "self", "x")
    ws_ = []
    ents = []
    wl = []
    for i, (k, z) in enumerate(zip(kinds, zeros)):
        wv = 0 if z else (i + 2)
        wl.append(wv)
        lo = EStub(W, False, "self", "lo%d" % i)
        hi = EStub(W, False, "self", "hi%d" % i) if k == "r" else None
        ents.append((lo, hi))
        ws_.append(DistWeightExprModel(lo, hi, ExprLiteralModel(wv, False, 32)))
    if sum(wl) == 0:
        c.check("case skipped: all weights zero (no draw range)", True)
        return
    d = ConstraintDistModel(lhs, ws_)
    blk = ConstraintBlockModel("c", [d])
    rs_ = GhostRandState(c)
    b = DistConstraintBuilder(rs_)
    b.visit_constraint_scope(blk)
    ov = blk.constraint_l[0]
    c.check("the dist statement is overridden (for this call) by a dist scope that remembers the original",
            isinstance(ov, ConstraintOverrideModel) and ov.orig_constraint is d and isinstance(ov.new_constraint, ConstraintDistScopeModel)
            and ov.new_constraint.dist_c is d)
    sc = ov.new_constraint
    c.check("weight_list == the (weight, index) pairs with weight > 0, ascending by weight; total_weight == sum of all weights",
            sc.weight_list == sorted([(wv, i) for i, wv in enumerate(wl) if wv > 0], key=lambda t: t[0]) and sc.total_weight == sum(wl))
    c.check("exactly one draw, from the RandState handed to the builder, over [1, total]",
            len(rs_.rng.draws) == 1 and rs_.rng.draws[0][0] == 1 and rs_.rng.draws[0][1] == sum(wl))
    bt = GhostBoolector()
    n = ov.build(bt, False)
    X = z3.BitVec("%s@%d" % (lhs.name, W), W)

    def T(st):
        return z3.BitVec("%s@%d" % (st.name, W), W)

    def inside(lo, hi):
        if hi is None:
            return ref_bin("Eq", X, T(lo), False, W)
        return ref_bin("Ge", X, T(lo), False, W) & ref_bin("Le", X, T(hi), False, W)
    any_e = z3.BitVecVal(0, 1)
    for lo, hi in ents:
        any_e = any_e | inside(lo, hi)
    want = any_e
    for (lo, hi), wv in zip(ents, wl):
        if wv == 0:
            want = want & ~inside(lo, hi)
    c.check("hard formula of a dist: x inside some listed entry AND outside every zero-weight entry (R-EXPR)",
            And(n.width == 1, n.term == want))


def uvec_cases(tier, seed):
    out = []
    for nv in (2, 3):
        for sz in (0, 1, 2, 3):
            for ws in ((8, 8, 8), (4, 9, 33)):
                for sg in ((False,) * 3, (True,) * 3, (True, False, True)):
                    out.append((nv, sz, list(ws[:nv]), list(sg[:nv])))
    return out


@contract("constraint_unique_vec.build", ["C01", "C04"],
          ["vsc.model.constraint_unique_vec_model.ConstraintUniqueVecModel.build",
           "vsc.model.constraint_unique_vec_model.ConstraintUniqueVecModel._mkVecNotEq"], uvec_cases, replay="none",
          note="unique_vec over 2..3 lists of 0..3 elements, element widths/signs per list; compared with R-EXPR: for every pair of "
               "lists, some position differs")
def c_unique_vec(c, nv, sz, ws, sg):
    from vsc.model.constraint_unique_vec_model import ConstraintUniqueVecModel
    from vsc.model.field_array_model import FieldArrayModel
    from vsc.model.field_composite_model import FieldCompositeModel
    from vsc.model.expr_fieldref_model import ExprFieldRefModel
    bt = GhostBoolector()
    root = FieldCompositeModel("o", True)
    arrs = []
    for k in range(nv):
        class T:
            width = ws[k]
        a = root.add_field(FieldArrayModel("l%d" % k, T(), True, None, ws[k], sg[k], True, False))
        for _ in range(sz):
            a.add_field()
        arrs.append(a)
    root.set_used_rand(True, 0)
    for a in arrs:
        for f in a.field_l:
            f.build(bt)
    st = ConstraintUniqueVecModel([ExprFieldRefModel(a) for a in arrs])
    n = st.build(bt, False)
    if sz == 0:
        # nothing to compare: the property speaks of the elements the list exposes, and there are none
        c.check("unique_vec over empty lists contributes no node", n is None, info="node=%r" % (n,))
        return
    want = z3.BitVecVal(1, 1)
    for i in range(nv):
        for j in range(i + 1, nv):
            W = max(ws[i], ws[j])
            ne = z3.BitVecVal(0, 1)
            for p in range(sz):
                ne = ne | ref_bin("Ne", arrs[i].field_l[p].var.term, arrs[j].field_l[p].var.term, sg[i] and sg[j], W)
            want = want & ne
    c.check("unique_vec == for every pair of lists some position differs (R-EXPR !=)", And(n.width == 1, n.term == want))
    odd = root.add_field(FieldArrayModel("odd", None, True, None, 8, False, True, False))
    for _ in range(sz + 1):
        odd.add_field().build(bt)
    try:
        ConstraintUniqueVecModel([ExprFieldRefModel(arrs[0]), ExprFieldRefModel(odd)]).build(bt, False)
        c.check("lists of different length are rejected, never silently truncated", False)
    except GhostBtorError:
        raise
    except Exception:
        c.check("lists of different length are rejected, never silently truncated", True)
