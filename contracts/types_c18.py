"""C18 — field values stay within their declared type on every access path.

Reference (R-VAL): wrap(v, w, signed) = v mod 2**w, minus 2**w when signed and >= 2**(w-1).
Every contract runs the real facade functions of vsc/types.py, vsc/rand_obj.py and the model setters they
call (FieldScalarModel.set_val/get_val, ValueScalar, ValueInt) on an unbounded symbolic integer.
"""
from pyvc.contract import contract, widths
from pyvc.sym import And, Or, Not, Implies, Ite, wrap, SymInt, lift
import z3


def ws(tier, seed):
    return [(w, s) for w in widths(tier, seed) for s in (False, True)]


def in_type(x, w, signed):
    if signed:
        return And(x >= -(1 << (w - 1)), x < (1 << (w - 1)))
    return And(x >= 0, x < (1 << w))


def psel_bounds(tier, seed):
    out = []
    for w in widths(tier, seed):
        if tier == "thorough":
            pairs = [(hi, lo) for hi in range(w) for lo in range(hi + 1)]
            if w > 16:   # all pairs up to 16 bits, boundary + strided pairs above (2080 pairs at 64 in full sweep)
                pairs = [(hi, lo) for (hi, lo) in pairs if lo in (0, 1, w // 2, hi) or hi in (w - 1, w - 2) or (hi - lo) % 7 == 0]
        else:
            cand = sorted({0, 1, w // 2, w - 2, w - 1} & set(range(w)))
            pairs = [(hi, lo) for hi in cand for lo in cand if lo <= hi]
        for s in (False, True):
            for hi, lo in pairs:
                out.append((w, s, hi, lo))
    return out


FNS_SET = ["vsc.types.type_base.set_val", "vsc.types.type_base.get_val",
           "vsc.model.field_scalar_model.FieldScalarModel.set_val",
           "vsc.model.field_scalar_model.FieldScalarModel.get_val",
           "vsc.model.value_scalar.ValueScalar.toInt", "vsc.model.value_scalar.ValueScalar.__int__"]


@contract("types.type_base.set_val", ["C18"], FNS_SET, ws)
def c_set_val(c, w, signed):
    from vsc.types import type_base
    v = c.fresh_int("v")
    f = type_base(w, signed)
    f.set_val(v)
    r = f.get_val()
    c.prove("get_val()==wrap(v,w,signed)", r == wrap(v, w, signed))
    c.prove("get_val() inside declared type", in_type(r, w, signed))
    c.prove(".val == get_val()", f.val == r)


@contract("types.type_base.val.setter", ["C18"],
          ["vsc.types.type_base.val"] + FNS_SET[2:], ws)
def c_val_setter(c, w, signed):
    from vsc.types import type_base
    v = c.fresh_int("v")
    f = type_base(w, signed)
    f.val = v
    c.prove(".val==wrap(v,w,signed)", f.val == wrap(v, w, signed))
    c.prove("get_val()==.val", f.get_val() == f.val)


@contract("types.type_base.build_field_model.init", ["C18"],
          ["vsc.types.type_base.build_field_model", "vsc.types.type_base.get_model"], ws)
def c_init_val(c, w, signed):
    from vsc.types import type_base
    v = c.fresh_int("v")
    f = type_base(w, signed, v)
    f.build_field_model("x")
    c.prove("initial value reads back as wrap(i,w,signed)", f.get_val() == wrap(v, w, signed))


def _mk_cls(w, signed):
    import vsc

    @vsc.randobj
    class C(object):
        def __init__(self):
            self.f = vsc.int_t(w) if signed else vsc.bit_t(w)
            self.l = vsc.list_t(vsc.int_t(w) if signed else vsc.bit_t(w))
    return C


@contract("rand_obj.attr_access", ["C18"],
          ["vsc.rand_obj._randobj.__call__", "vsc.types.type_base.set_val", "vsc.types.type_base.get_val"], ws,
          note="randobj __getattribute__/__setattr__ are closures created by _randobj.__call__; they are run as "
               "installed on a two-field class built in the contract")
def c_attr(c, w, signed):
    o = _mk_cls(w, signed)()
    v = c.fresh_int("v")
    o.f = v
    r = o.f
    c.prove("obj.f == wrap(v,w,signed) after obj.f = v", r == wrap(v, w, signed))
    import vsc
    with vsc.raw_mode():
        fo = o.f
    c.prove("attribute read == get_val() == .val", And(fo.get_val() == r, fo.val == r))


@contract("types.list_t.scalar_paths", ["C18"],
          ["vsc.types.list_t.append", "vsc.types.list_t.extend", "vsc.types.list_t.__setitem__",
           "vsc.types.list_t.__getitem__", "vsc.types.list_t.__iter__", "vsc.types.list_t.get_model",
           "vsc.model.field_array_model.FieldArrayModel.add_field"], ws)
def c_list(c, w, signed):
    import vsc
    t = vsc.int_t(w) if signed else vsc.bit_t(w)
    l = vsc.list_t(t)
    v0 = c.fresh_int("v")
    v1 = c.fresh_int("v")
    v2 = c.fresh_int("v")
    l.append(v0)
    l.extend([v1])
    c.prove("l[0]==wrap(v0) after append", l[0] == wrap(v0, w, signed))
    c.prove("l[1]==wrap(v1) after extend", l[1] == wrap(v1, w, signed))
    l[0] = v2
    c.prove("l[0]==wrap(v2) after l[0]=v2", l[0] == wrap(v2, w, signed))
    c.prove("l[1] unchanged by l[0]=v2", l[1] == wrap(v1, w, signed))
    it = [x for x in l]
    c.prove("len(list(l))==2", len(it) == 2)
    c.prove("iteration yields the same values as indexing", And(it[0] == l[0], it[1] == l[1]))
    c.prove("elements inside declared type", And(in_type(l[0], w, signed), in_type(l[1], w, signed)))


@contract("rand_obj.list_assign", ["C18"],
          ["vsc.rand_obj._randobj.__call__", "vsc.types.list_t.append", "vsc.types.list_t.clear"], ws)
def c_list_assign(c, w, signed):
    o = _mk_cls(w, signed)()
    v0 = c.fresh_int("v")
    v1 = c.fresh_int("v")
    o.l.append(5)
    o.l = [v0, v1]
    c.prove("len after assignment of a 2-list", len(o.l) == 2)
    c.prove("o.l[i]==wrap(v_i)", And(o.l[0] == wrap(v0, w, signed), o.l[1] == wrap(v1, w, signed)))


def _ubits(x, hi, lo):
    """bits [hi:lo] of the two's-complement representation of x, as a non-negative integer term"""
    return (lift(x) >> lo) & ((1 << (hi - lo + 1)) - 1)


@contract("types.type_base.__getitem__.procedural", ["C18"],
          ["vsc.types.type_base.__getitem__", "vsc.model.value_scalar.ValueInt.__getitem__"], psel_bounds)
def c_psel_read(c, w, signed, hi, lo):
    from vsc.types import type_base
    old = c.fresh_int("old")
    c.assume(in_type(old, w, signed))
    f = type_base(w, signed)
    f.get_model().set_val(old)
    want = _ubits(old, hi, lo)
    c.prove("f[hi:lo] == (val>>lo) & (2**(hi-lo+1)-1)", f[hi:lo] == want)
    c.prove("get_val()[hi:lo] (ValueInt) agrees", f.get_val()[hi:lo] == want)
    if hi == lo:
        c.prove("f[i] == bit i", f[hi] == want)
        c.prove("get_val()[i] (ValueInt) == bit i", f.get_val()[hi] == want)


@contract("types.type_base.__setitem__.slice", ["C18"], ["vsc.types.type_base.__setitem__"], psel_bounds, backend="bv")
def c_psel_write(c, w, signed, hi, lo):
    from vsc.types import type_base
    old = c.fresh_int("old")
    v = c.fresh_int("v")
    c.assume(in_type(old, w, signed))
    f = type_base(w, signed)
    f.get_model().set_val(old)
    f[hi:lo] = v
    new = f.get_val()
    n = hi - lo + 1
    c.prove("selected bits == v mod 2**n", _ubits(new, hi, lo) == (lift(v) & ((1 << n) - 1)))
    if hi < w - 1:
        c.prove("bits above hi unchanged", _ubits(new, w - 1, hi + 1) == _ubits(old, w - 1, hi + 1))
    if lo > 0:
        c.prove("bits below lo unchanged", _ubits(new, lo - 1, 0) == _ubits(old, lo - 1, 0))
    c.prove("value stays inside declared type", in_type(new, w, signed))


def bit_idx(tier, seed):
    out = []
    for w in widths(tier, seed):
        idx = range(w) if tier == "thorough" else sorted({0, 1, w // 2, w - 1} & set(range(w)))
        for s in (False, True):
            for i in idx:
                out.append((w, s, i))
    return out


@contract("types.type_base.__setitem__.bit", ["C18"], ["vsc.types.type_base.__setitem__"], bit_idx, backend="bv")
def c_bit_write(c, w, signed, i):
    from vsc.types import type_base
    old = c.fresh_int("old")
    v = c.fresh_int("v")
    c.assume(in_type(old, w, signed))
    f = type_base(w, signed)
    f.get_model().set_val(old)
    f[i] = v
    new = f.get_val()
    c.prove("bit i == v mod 2", _ubits(new, i, i) == (lift(v) & 1))
    if i < w - 1:
        c.prove("bits above i unchanged", _ubits(new, w - 1, i + 1) == _ubits(old, w - 1, i + 1))
    if i > 0:
        c.prove("bits below i unchanged", _ubits(new, i - 1, 0) == _ubits(old, i - 1, 0))
    c.prove("value stays inside declared type", in_type(new, w, signed))


def enum_cases(tier, seed):
    return [("plain",), ("sparse",), ("neg",), ("auto",)]


def _enum(kind):
    from enum import IntEnum, Enum, auto
    if kind == "plain":
        class E(IntEnum):
            A = 0
            B = 1
            C = 2
        return E
    if kind == "sparse":
        class E(IntEnum):
            A = 5
            B = 17
            C = 1000000
            D = 6
        return E
    if kind == "neg":
        class E(IntEnum):
            A = -3
            B = 0
            C = 7
        return E

    class E(Enum):
        A = auto()
        B = auto()
        C = auto()
    return E


@contract("types.type_enum.set_get", ["C18"],
          ["vsc.types.type_enum.set_val", "vsc.types.type_enum.get_val", "vsc.impl.enum_info.EnumInfo.__init__",
           "vsc.impl.enum_info.EnumInfo.e2v", "vsc.impl.enum_info.EnumInfo.v2e"], enum_cases,
          kind="bounded", bound="4 enum classes (dense, sparse, negative, auto()), every enumerator")
def c_enum(c, kind):
    import vsc
    from vsc.impl.enum_info import EnumInfo
    E = _enum(kind)
    ei = EnumInfo.get(E)
    for e in E:
        c.prove("v2e(e2v(e)) is e", ei.v2e(ei.e2v(e)) is e)
        f = vsc.enum_t(E)
        f.set_val(e)
        c.prove("enum field returns the enumerator it was given", f.get_val() is e)
        c.prove("model value is a declared enumerator value", int(f.get_model().get_val()) in ei.enums)
    f = vsc.enum_t(E)
    c.prove("fresh enum field holds a declared enumerator", f.get_val() in list(E))
    lst = vsc.list_t(vsc.enum_t(E))
    for e in E:
        lst.append(e)
    c.prove("enum list returns what was appended", all(lst[i] is e for i, e in enumerate(E)))
