"""R-RL contracts: RangelistModel (compact / intersect / __contains__) and the bin partition
CoverpointBinCollectionModel.mk_collection.  Endpoints are unbounded symbolic integers; the number of ranges
(shape) is enumerated up to the stated bound.  Used by C10 (bins), C14 (domains) and C19 (wildcard arrays)."""
import itertools
from pyvc.contract import contract
from pyvc.sym import And, Or, Not, Implies, Ite, Iff, SymInt, lift
import z3


def member(v, ranges):
    return Or(*[And(v >= lo, v <= hi) for lo, hi in ranges])


def sorted_disjoint(ranges):
    cs = [lo <= hi for lo, hi in ranges]
    for (l0, h0), (l1, h1) in zip(ranges, ranges[1:]):
        cs.append(h0 < l1)
    return And(*cs)


def ascending_lo(ranges):
    """range list ordered by lower bound (overlap allowed): what every producer of a bag bin's range list guarantees"""
    return And(*([lo <= hi for lo, hi in ranges] + [l0 <= l1 for (l0, h0), (l1, h1) in zip(ranges, ranges[1:])]))


def fresh_ranges(c, k, tag="r", wellformed=True):
    out = []
    for i in range(k):
        lo = c.fresh_int(tag + "lo")
        hi = c.fresh_int(tag + "hi")
        if wellformed:
            c.assume(lo <= hi)
        out.append((lo, hi))
    return out


def shapes_compact(tier, seed):
    return [(k,) for k in ((1, 2, 3, 4) if tier == "thorough" else (1, 2, 3))]


@contract("rangelist.compact", ["C10", "C14"], ["vsc.model.rangelist_model.RangelistModel.compact"], shapes_compact,
          bound=None, note="RangelistModel.compact: shapes up to 3 (quick) / 4 (thorough) ranges in any order and overlap; "
                           "endpoints unbounded")
def c_compact(c, k):
    from vsc.model.rangelist_model import RangelistModel
    rs = fresh_ranges(c, k)
    rm = RangelistModel([[lo, hi] for lo, hi in rs])
    rm.compact()
    after = [(r[0], r[1]) for r in rm.range_l]
    v = c.fresh_int("v")
    c.prove("value set unchanged (forall v)", Iff(member(v, rs), member(v, after)))
    c.prove("result ascending and pairwise disjoint", sorted_disjoint(after))


def shapes_intersect(tier, seed):
    m = 3 if tier == "thorough" else 2
    return [(a, b) for a in range(1, m + 1) for b in range(1, m + 1)] + ([(3, 1), (1, 3)] if tier != "thorough" else [])


@contract("rangelist.intersect", ["C10"], ["vsc.model.rangelist_model.RangelistModel.intersect",
                                          "vsc.model.rangelist_model.RangelistModel._intersect"], shapes_intersect,
          note="RangelistModel.intersect: both operands ascending and disjoint (they are compacted by every caller); "
               "shapes up to 2x2 (+3x1,1x3) quick / 3x3 thorough")
def c_intersect(c, ka, kb):
    from vsc.model.rangelist_model import RangelistModel
    a = fresh_ranges(c, ka, "a")
    b = fresh_ranges(c, kb, "b")
    c.assume(sorted_disjoint(a))
    c.assume(sorted_disjoint(b))
    ra = RangelistModel([[lo, hi] for lo, hi in a])
    rb = RangelistModel([[lo, hi] for lo, hi in b])
    ra.intersect(rb)
    after = [(r[0], r[1]) for r in ra.range_l]
    v = c.fresh_int("v")
    c.prove("value set == set(self) minus set(other) (forall v)",
            Iff(member(v, after), And(member(v, a), Not(member(v, b)))))
    c.prove("result ascending and pairwise disjoint", sorted_disjoint(after))
    c.prove("other operand unchanged", And(*[And(r[0] == lo, r[1] == hi) for r, (lo, hi) in zip(rb.range_l, b)]
                                           + [len(rb.range_l) == kb]))


@contract("rangelist.__contains__", ["C10", "C14"], ["vsc.model.rangelist_model.RangelistModel.__contains__"],
          lambda tier, seed: [(k,) for k in range(0, 5)])
def c_contains(c, k):
    from vsc.model.rangelist_model import RangelistModel
    rs = fresh_ranges(c, k)
    # precondition derived from the call sites: every range list that reaches __contains__ (a bag bin's binspec) was produced
    # by compact/intersect or by the partition, i.e. is ordered by lower bound (postconditions of those contracts)
    c.assume(ascending_lo(rs))
    rm = RangelistModel([[lo, hi] for lo, hi in rs])
    v = c.fresh_int("v")
    got = v in rm
    c.prove("v in rl  <=>  exists i: lo_i <= v <= hi_i", Iff(got, member(v, rs)))


# ---- partition -------------------------------------------------------------------------------------
def shapes_mk(tier, seed):
    ks = (1, 2, 3)
    ns = range(1, 7) if tier == "thorough" else (1, 2, 3, 5)
    return [(k, n) for k in ks for n in ns]


def bin_set(v, b):
    """membership of v in the value set of one (1-bin) bin model"""
    n = type(b).__name__
    if n == "CoverpointBinSingleRangeModel":
        return And(v >= b.target_val_low, v <= b.target_val_high)
    if n == "CoverpointBinSingleBagModel":
        from pyvc.sym import Ctx
        return Ctx.cur.summarize(lambda: v in b.binspec)     # the bag's real membership test on the list the partition produced
    if n == "CoverpointBinSingleValModel":
        return lift(v) == b.target_val
    raise AssertionError("unexpected bin model " + n)


def rank(v, rs):
    """number of members of the (ascending, disjoint) range list strictly below v"""
    t = lift(0)
    for lo, hi in rs:
        t = t + Ite(v <= lo, 0, Ite(v > hi, lift(hi) - lo + 1, lift(v) - lo))
    return t


@contract("coverpoint_bin_collection.mk_collection", ["C10", "C19"],
          ["vsc.model.coverpoint_bin_collection_model.CoverpointBinCollectionModel.mk_collection"], shapes_mk,
          max_paths=60000,
          note="mk_collection: input ascending disjoint; shapes up to 3 ranges x requested bin counts 1..6 (the bin size is "
               "the integer quotient N // n, endpoints unbounded)")
def c_mk_collection(c, k, n):
    from vsc.model.coverpoint_bin_collection_model import CoverpointBinCollectionModel
    from vsc.model.rangelist_model import RangelistModel
    rs = fresh_ranges(c, k)
    c.assume(sorted_disjoint(rs))
    rm = RangelistModel([[lo, hi] for lo, hi in rs])
    ret = CoverpointBinCollectionModel.mk_collection("b", rm, n)
    N = lift(0)
    for lo, hi in rs:
        N = N + (lift(hi) - lo + 1)
    v = c.fresh_int("v")
    mem = member(v, rs)
    rk = rank(v, rs)
    if bool(N > n):
        vpb = SymInt(N.z / n)
        c.prove("exactly the requested number of bins", len(ret.bin_l) == n)
        for j, b in enumerate(ret.bin_l):
            if j < n - 1:
                want = And(mem, rk >= j * vpb, rk < (j + 1) * vpb)
            else:
                want = And(mem, rk >= j * vpb)
            c.prove("bin[%d] holds exactly chunk %d of the ascending value list (forall v)" % (j, j),
                    Iff(bin_set(v, b), want))
            c.prove("bin[%d] is named name[%d]" % (j, j), b.name == "b[%d]" % j)
    else:
        # one bin per value: flat index of v == rank(v)
        off = lift(0)
        hits = []
        for b in ret.bin_l:
            nm = type(b).__name__
            if nm == "CoverpointBinArrayModel":
                inb = And(v >= b.low, v <= b.high)
                c.prove("array bin: flat index of v == rank(v)", Implies(inb, off + (lift(v) - b.low) == rk))
                off = off + (lift(b.high) - b.low + 1)
            else:
                inb = bin_set(v, b)
                c.prove("single bin: flat index of v == rank(v)", Implies(inb, off == rk))
                off = off + 1
            hits.append(inb)
        c.prove("one bin per value: v has a bin iff it is listed (forall v)", Iff(Or(*hits), mem))
        c.prove("number of bins == number of values", off == N)


@contract("coverage.bin.build_cov_model", ["C10"], ["vsc.coverage.bin.build_cov_model", "vsc.coverage.bin.__init__"],
          lambda tier, seed: [(k, e) for k in (1, 2, 3) for e in (0, 1, 2)], max_paths=60000,
          note="explicit bin: <= 3 listed values/ranges in any order and overlap, <= 2 excluded ranges (ascending, disjoint)")
def c_bin_build(c, k, ke):
    import vsc
    from vsc.model.rangelist_model import RangelistModel
    rs = fresh_ranges(c, k)
    ex = fresh_ranges(c, ke, "x")
    c.assume(sorted_disjoint(ex))
    b = vsc.bin(*[(lo, hi) for lo, hi in rs])
    excl = RangelistModel([[lo, hi] for lo, hi in ex])
    m = b.build_cov_model(None, "b", excl)
    v = c.fresh_int("v")
    want = And(member(v, rs), Not(member(v, ex)))
    if m is None:
        c.prove("no bin model only if no listed value survives the exclusion (forall v)", Not(want))
    else:
        got = [(r[0], r[1]) for r in m.binspec.range_l]
        c.prove("the bin's value set == listed values minus ignore/illegal values (forall v)", Iff(member(v, got), want))
        # the intermediate shape of the range list is not fixed by the property: the bin's real membership test is run on
        # the list this function produced (caller checked together with the callee's body)
        c.prove("the bin's own membership test (RangelistModel.__contains__ on the produced list) accepts exactly that set",
                Iff(c.summarize(lambda: v in m.binspec), want))
        c.prove("the bin keeps its name", m.name == "b")


# ---- coverpoint.build_cov_model: the glue between the user's bins / ignore / illegal specification and the partition ----
def shapes_cp_build(tier, seed):
    out = []
    for (w, s) in ((1, False), (4, False), (4, True), (8, True), (32, False)):
        for ig in (0, 1, 2):
            for il in (0, 1):
                for amax in (None, 1, 3):
                    if amax is not None and (w, s) not in ((4, False), (8, True)):
                        continue
                    out.append((w, s, ig, il, amax))
    return out


@contract("coverage.coverpoint.build_cov_model", ["C10"], ["vsc.coverage.coverpoint.build_cov_model"], shapes_cp_build,
          max_paths=60000,
          note="coverpoint.build_cov_model glue: type width/sign enumerated {bit1, bit4, int4, int8, bit32}; 0..2 ignore and 0..1 "
               "illegal ranges with unbounded symbolic endpoints in any order/overlap; auto_bin_max in {default, 1, 3}. "
               "mk_collection / bin.build_cov_model are replaced by recorders: the caller is checked against their "
               "preconditions (ascending, disjoint) and hands them exactly type-range minus excluded values")
def c_cp_build(c, w, signed, nig, nil, amax):
    import vsc
    from pyvc.ghost import patched
    from vsc.model.coverpoint_bin_collection_model import CoverpointBinCollectionModel
    from vsc.model.coverpoint_bin_single_range_model import CoverpointBinSingleRangeModel
    ig = fresh_ranges(c, nig, "ig")
    il = fresh_ranges(c, nil, "il")
    seen = []

    def rec_mk(name, binspec, n):
        seen.append(("auto", name, [(r[0], r[1]) for r in binspec.range_l], n))
        return CoverpointBinSingleRangeModel(name, 0, 0)

    class rec_bin(vsc.bin):
        def build_cov_model(self, parent, name, excl):
            seen.append(("bin", name, None if excl is None else [(r[0], r[1]) for r in excl.range_l], self))
            return CoverpointBinSingleRangeModel(name, 0, 0)

    for explicit in (False, True):
        del seen[:]

        @vsc.covergroup
        class cg(object):
            def __init__(self):
                self.with_sample(dict(a=vsc.int_t(w) if signed else vsc.bit_t(w)))
                kw = {}
                if nig:
                    kw["ignore_bins"] = {"ig": rec_bin(*ig)}
                if nil:
                    kw["illegal_bins"] = {"il": rec_bin(*il)}
                if explicit:
                    kw["bins"] = {"b0": rec_bin(1), "b1": rec_bin((2, 3))}
                opts = {} if amax is None else {"auto_bin_max": amax}
                self.cp = vsc.coverpoint(self.a, options=opts, **kw)
        with patched((CoverpointBinCollectionModel, "mk_collection", staticmethod(rec_mk))):
            inst = cg()
        v = c.fresh_int("v")
        excl = Or(member(v, ig), member(v, il))
        lo, hi = (-(1 << (w - 1)), (1 << (w - 1)) - 1) if signed else (0, (1 << w) - 1)
        if not explicit:
            autos = [s for s in seen if s[0] == "auto"]
            c.prove("auto-bins: the partition is requested exactly once, with auto_bin_max (default 64)",
                    len(autos) == 1 and autos[0][3] == (64 if amax is None else amax))
            rl = autos[0][2]
            c.prove("auto-bins: the value list handed to the partition == the type's whole range minus ignore/illegal values (forall v)",
                    Iff(member(v, rl), And(v >= lo, v <= hi, Not(excl))))
            c.prove("auto-bins: that list satisfies the partition's precondition (ascending, pairwise disjoint)", sorted_disjoint(rl))
        else:
            regs = [s for s in seen if s[0] == "bin" and s[1] in ("b0", "b1")]
            c.prove("explicit bins: every bin specification is built once, in dict order", [s[1] for s in regs] == ["b0", "b1"])
            for s in regs:
                c.prove("explicit bins: the exclusion list handed to each bin == ignore + illegal values (forall v)",
                        Iff(member(v, s[2]), excl))
                c.prove("explicit bins: the exclusion list satisfies the callee's precondition (ascending, pairwise disjoint)",
                        sorted_disjoint(s[2]))
        igs = [s for s in seen if s[0] == "bin" and s[1] in ("ig", "il")]
        c.prove("ignore / illegal bins get their own models, built without any exclusion",
                sorted(s[1] for s in igs) == sorted((["ig"] if nig else []) + (["il"] if nil else [])) and all(s[2] is None for s in igs))
        m = inst.get_model().coverpoint_l[0]
        c.prove("the coverpoint has the regular / ignore / illegal bin models in their own lists",
                len(m.bin_model_l) == (2 if explicit else 1) and len(m.ignore_bin_model_l) == (1 if nig else 0)
                and len(m.illegal_bin_model_l) == (1 if nil else 0))
