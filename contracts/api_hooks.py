"""Bounded stand-in (public API, real Boolector) for C17: pre_randomize / post_randomize run once each, before and after the
solve, on the top object and every random sub-object including list elements, and never for a non-random sub-object or
anything below it."""
import itertools
from pyvc.contract import contract, library_only


def hook_cases(tier, seed):
    return [(st, how) for st in ("flat", "sub_rand", "sub_nonrand", "list_rand", "list_nonrand", "list_randsz", "nested",
                                 "nested_under_nonrand", "inherit", "inherit_derived", "mode_off")
            for how in ("randomize", "randomize_with", "vsc.randomize_with", "vsc.randomize")]


@contract("api_hooks.family", ["C17"],
          ["vsc.rand_obj._randobj.__call__", "vsc.model.randomizer.Randomizer.do_randomize",
           "vsc.model.field_composite_model.FieldCompositeModel.pre_randomize",
           "vsc.model.field_composite_model.FieldCompositeModel.post_randomize",
           "vsc.model.field_array_model.FieldArrayModel.pre_randomize", "vsc.model.field_array_model.FieldArrayModel.post_randomize",
           "vsc.methods.randomize", "vsc.methods.randomize_with"],
          hook_cases, kind="bounded",
          bound="11 object structures (flat, random / non-random sub-object, fixed / non-random / random-size lists of objects, "
                "two-level nesting, nesting under a non-random object, hooks inherited from a base / defined only on a derived class, a random sub-object with rand_mode switched off) x 4 ways of calling "
                "(obj.randomize, obj.randomize_with, vsc.randomize_with(obj), vsc.randomize(obj)) x 4 consecutive calls; every hook "
                "logs its object, pre_randomize assigns a non-random field the solver must see, post_randomize records the values")
def c_hooks(c, structure, how):
    import vsc
    log = []

    class Hooks(object):
        def pre_randomize(self):
            log.append(("pre", self.tag))
            self.lim = self.next_lim        # a non-random field assigned in pre_randomize: the solver must see this value

        def post_randomize(self):
            log.append(("post", self.tag, int(self.v), int(self.lim)))

    @vsc.randobj
    class Leaf(Hooks):
        def __init__(self, tag):
            self.tag = tag
            self.next_lim = 9
            self.v = vsc.rand_bit_t(8)
            self.lim = vsc.bit_t(8)
            self.lim = 200

        @vsc.constraint
        def c(self):
            self.v < self.lim

    @vsc.randobj
    class Mid(Hooks):
        def __init__(self, tag, rand_child=True):
            self.tag = tag
            self.next_lim = 9
            self.v = vsc.rand_bit_t(8)
            self.lim = vsc.bit_t(8)
            self.lim = 200
            self.child = vsc.rand_attr(Leaf(tag + ".child")) if rand_child else vsc.attr(Leaf(tag + ".child"))

        @vsc.constraint
        def c(self):
            self.v < self.lim

    @vsc.randobj
    class Base(object):
        def __init__(self):
            self.tag = "top.sub"
            self.next_lim = 9
            self.v = vsc.rand_bit_t(8)
            self.lim = vsc.bit_t(8)
            self.lim = 200

        @vsc.constraint
        def c(self):
            self.v < self.lim

        def pre_randomize(self):
            log.append(("pre", self.tag))
            self.lim = self.next_lim

        def post_randomize(self):
            log.append(("post", self.tag, int(self.v), int(self.lim)))

    @vsc.randobj
    class Derived(Base):
        def __init__(self):
            super().__init__()
            self.w = vsc.rand_bit_t(4)

    @vsc.randobj
    class Plain(object):                       # a decorated base class without hooks ...
        def __init__(self):
            self.tag = "top.sub"
            self.next_lim = 9
            self.v = vsc.rand_bit_t(8)
            self.lim = vsc.bit_t(8)
            self.lim = 200

        @vsc.constraint
        def c(self):
            self.v < self.lim

    @vsc.randobj
    class DerivedHooks(Plain):                 # ... and a derived class that defines them
        def pre_randomize(self):
            log.append(("pre", self.tag))
            self.lim = self.next_lim

        def post_randomize(self):
            log.append(("post", self.tag, int(self.v), int(self.lim)))

    @vsc.randobj
    class Top(Hooks):
        def __init__(self):
            self.tag = "top"
            self.next_lim = 9
            self.v = vsc.rand_bit_t(8)
            self.lim = vsc.bit_t(8)
            self.lim = 200
            self.rand_objs = []          # objects that are random in a call on Top
            self.quiet_objs = []         # objects whose hooks must never run
            if structure == "sub_rand":
                self.sub = vsc.rand_attr(Leaf("top.sub"))
                self.rand_objs = [self.sub]
            elif structure == "sub_nonrand":
                self.sub = vsc.attr(Leaf("top.sub"))
                self.quiet_objs = [self.sub]
            elif structure == "mode_off":
                self.sub = vsc.rand_attr(Leaf("top.sub"))
                self.quiet_objs = [self.sub]
            elif structure == "inherit":
                self.sub = vsc.rand_attr(Derived())
                self.rand_objs = [self.sub]
            elif structure == "inherit_derived":
                self.sub = vsc.rand_attr(DerivedHooks())
                self.rand_objs = [self.sub]
            elif structure in ("list_rand", "list_nonrand", "list_randsz"):
                mk = {"list_rand": vsc.rand_list_t, "list_nonrand": vsc.list_t, "list_randsz": vsc.randsz_list_t}[structure]
                self.items = mk(Leaf("proto"))
                es = [Leaf("top.items[%d]" % i) for i in range(3)]
                for e in es:
                    self.items.append(e)
                if structure == "list_nonrand":
                    self.quiet_objs = es
                else:
                    self.rand_objs = es
            elif structure == "nested":
                self.sub = vsc.rand_attr(Mid("top.sub"))
                self.rand_objs = [self.sub, self.sub.child]
            elif structure == "nested_under_nonrand":
                self.sub = vsc.attr(Mid("top.sub"))
                self.quiet_objs = [self.sub, self.sub.child]

        @vsc.constraint
        def c(self):
            self.v < self.lim
            if structure == "list_randsz":
                self.items.size == 3
    try:
        top = Top()
        if structure == "mode_off":
            top.sub.rand_mode = False         # a random sub-object switched off: it is not random in the call
        objs = [top] + top.rand_objs
        for call in range(4):
            del log[:]
            for k, o in enumerate(objs + top.quiet_objs):
                o.next_lim = 3 + call + k
            if how == "randomize":
                top.randomize()
            elif how == "randomize_with":
                with top.randomize_with() as it:
                    it.v >= 0
            elif how == "vsc.randomize_with":
                with vsc.randomize_with(top):
                    top.v >= 0
            else:
                vsc.randomize(top)
            pres = [e[1] for e in log if e[0] == "pre"]
            posts = [e[1] for e in log if e[0] == "post"]
            want = sorted(o.tag for o in objs)
            c.check("C17: pre_randomize ran exactly once on the top object and every random sub-object / list element, "
                    "and on nothing else", sorted(pres) == want, info="call %d pre=%r want=%r" % (call, pres, want))
            c.check("C17: post_randomize ran exactly once on the same objects", sorted(posts) == want,
                    info="call %d post=%r want=%r" % (call, posts, want))
            kinds = [e[0] for e in log]
            c.check("C17: every pre_randomize precedes every post_randomize", "pre" not in kinds[kinds.index("post"):] if "post" in kinds else True,
                    info=repr(kinds))
            for k, o in enumerate(objs):
                c.check("C17: the value pre_randomize assigned to a non-random field is the one the solver saw",
                        int(o.lim) == 3 + call + k and int(o.v) < 3 + call + k, info="%s v=%d lim=%d" % (o.tag, int(o.v), int(o.lim)))
            for e in log:
                if e[0] == "post":
                    o = [x for x in objs if x.tag == e[1]]
                    c.check("C17: post_randomize saw the final values of its object", bool(o) and (e[2], e[3]) == (int(o[0].v), int(o[0].lim)),
                            info=repr(e))
            for o in top.quiet_objs:
                c.check("C17: a non-random sub-object (and anything below it) keeps the values it had: its hooks did not run",
                        int(o.lim) == 200, info="%s lim=%d" % (o.tag, int(o.lim)))
    except Exception as e:
        library_only(e)
        import traceback
        c.check("C17: no exception from a satisfiable call with hooks", False, info="%s: %s %s" % (type(e).__name__, e, traceback.format_exc(limit=-3)))
