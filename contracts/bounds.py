"""C14 - inferred value ranges over-approximate the solutions.

Sound(dom_f): every value of f in a solution of the enabled hard constraints (R-EXPR semantics) lies in set(dom_f).
Each propagator must preserve Sound; the visitor must only install propagators that are implied by the constraint."""
import itertools
import z3
from pyvc.contract import contract, widths
from pyvc.sym import And, Or, Not, Implies, Ite, Iff, SymInt, SymBool, lift, wrap
from contracts.rangelist import member, fresh_ranges, sorted_disjoint


def _dom(c, k):
    rs = fresh_ranges(c, k, "d")
    c.assume(sorted_disjoint(rs))
    return rs


def _bound(rs):
    from vsc.model.variable_bound_model import VariableBoundModel

    class V:
        name = "f"
    b = VariableBoundModel(V())
    b.domain.range_l = [[lo, hi] for lo, hi in rs]
    return b


def _ranges(b):
    return [(r[0], r[1]) for r in b.domain.range_l]


def ascending(rs):
    return And(*[h0 < l1 for (l0, h0), (l1, h1) in zip(rs, rs[1:])])


K = lambda tier, seed: [(k,) for k in ((0, 1, 2, 3, 4) if tier == "thorough" else (0, 1, 2, 3))]


@contract("bounds.max_propagator", ["C14"], ["vsc.model.variable_bound_max_propagator.VariableBoundMaxPropagator.propagate",
                                             "vsc.model.variable_bound_expr_max_propagator.VariableBoundExprMaxPropagator.max"], K)
def c_max(c, k):
    from vsc.model.variable_bound_max_propagator import VariableBoundMaxPropagator
    rs = _dom(c, k)
    b = _bound(rs)
    m = c.fresh_int("max")

    class P(VariableBoundMaxPropagator):
        def max(self):
            return m
    P(b).propagate()
    v = c.fresh_int("v")
    c.prove("sound: every domain value <= max stays in the domain (forall v)",
            Implies(And(member(v, rs), v <= m), member(v, _ranges(b))))
    c.prove("domain stays ascending", ascending(_ranges(b)))


@contract("bounds.min_propagator", ["C14"], ["vsc.model.variable_bound_min_propagator.VariableBoundMinPropagator.propagate",
                                             "vsc.model.variable_bound_expr_min_propagator.VariableBoundExprMinPropagator.min"], K)
def c_min(c, k):
    from vsc.model.variable_bound_min_propagator import VariableBoundMinPropagator
    rs = _dom(c, k)
    b = _bound(rs)
    m = c.fresh_int("min")

    class P(VariableBoundMinPropagator):
        def min(self):
            return m
    P(b).propagate()
    v = c.fresh_int("v")
    c.prove("sound: every domain value >= min stays in the domain (forall v)",
            Implies(And(member(v, rs), v >= m), member(v, _ranges(b))))
    c.prove("domain stays ascending", ascending(_ranges(b)))


class ValStub:
    def __init__(self, v):
        self.v = v

    def val(self):
        from vsc.model.value_scalar import ValueScalar
        return ValueScalar(self.v)


@contract("bounds.eq_propagator", ["C14"], ["vsc.model.variable_bound_eq_propagator.VariableBoundEqPropagator.propagate"], K)
def c_eq(c, k):
    from vsc.model.variable_bound_eq_propagator import VariableBoundEqPropagator
    rs = _dom(c, k)
    b = _bound(rs)
    e = c.fresh_int("eq")
    VariableBoundEqPropagator(b, ValStub(e), True).propagate()
    v = c.fresh_int("v")
    c.prove("sound: the value equal to the constant stays in the domain",
            Implies(And(member(v, rs), v == e), member(v, _ranges(b))))


def in_shapes(tier, seed):
    m = 3 if tier == "thorough" else 2
    out = [(kd, ki) for kd in range(1, m + 1) for ki in range(1, 4)]
    return out


@contract("bounds.in_propagator", ["C14"], ["vsc.model.variable_bound_in_propagator.VariableBoundInPropagator.propagate"],
          in_shapes, max_paths=100000,
          note="in-propagator: domain <= 2 (quick) / 3 ranges x in-list <= 3 entries in any order, overlapping or nested")
def c_in(c, kd, ki):
    from vsc.model.variable_bound_in_propagator import VariableBoundInPropagator
    from vsc.model.expr_range_model import ExprRangeModel
    rs = _dom(c, kd)
    b = _bound(rs)
    ins = fresh_ranges(c, ki, "in")

    class RL:
        pass
    rl = RL()
    rl.rl = [ExprRangeModel(ValStub(lo), ValStub(hi)) for lo, hi in ins]
    VariableBoundInPropagator(b, rl).propagate()
    v = c.fresh_int("v")
    c.prove("sound: every domain value inside the in-list stays in the domain (forall v)",
            Implies(And(member(v, rs), member(v, ins)), member(v, _ranges(b))))
    c.prove("domain stays ascending", ascending(_ranges(b)))


@contract("bounds.bounds_max_min", ["C14"],
          ["vsc.model.variable_bound_bounds_max_propagator.VariableBoundBoundsMaxPropagator.max",
           "vsc.model.variable_bound_bounds_min_propagator.VariableBoundBoundsMinPropagator.min",
           "vsc.model.variable_bound_vareq_propagator.VariableBoundVarEqPropagator.propagate"],
          lambda tier, seed: [(a, b) for a in (0, 1, 2) for b in (0, 1, 2)])
def c_bounds_rel(c, ka, kb):
    from vsc.model.variable_bound_bounds_max_propagator import VariableBoundBoundsMaxPropagator
    from vsc.model.variable_bound_bounds_min_propagator import VariableBoundBoundsMinPropagator
    from vsc.model.variable_bound_vareq_propagator import VariableBoundVarEqPropagator
    x, y = c.fresh_int("x"), c.fresh_int("y")
    for kind in ("max", "min", "eq"):
        ra, rb = _dom(c, ka), _dom(c, kb)
        A, B = _bound(ra), _bound(rb)
        off = c.fresh_int("off")
        if kind == "max":
            VariableBoundBoundsMaxPropagator(A, B, off).propagate()
            rel = x <= y + off
        elif kind == "min":
            VariableBoundBoundsMinPropagator(A, B, off).propagate()
            rel = x >= y + off
        else:
            VariableBoundVarEqPropagator(A, B).propagate()
            rel = x == y
        c.prove("sound (%s): any pair of values inside both domains that satisfies the relation stays inside both domains" % kind,
                Implies(And(member(x, ra), member(y, rb), rel), And(member(x, _ranges(A)), member(y, _ranges(B)))))


# ---- dispatch soundness (visitor) ---------------------------------------------------------------------
def upat(x, w):
    return lift(x) & ((1 << w) - 1)


def in_type(x, w, s):
    return And(x >= -(1 << (w - 1)), x < (1 << (w - 1))) if s else And(x >= 0, x < (1 << w))


def operand(kind, val, w, s):
    return (kind, val, w, s)


def cmp_truth(op, L, R):
    """R-EXPR truth of `L op R` for operands (kind, integer value, width, signed); kind 'field' is self-sized, 'lit' is
    context-sized.  Both signed: signed comparison of the values.  Otherwise unsigned comparison of the patterns, a field's
    pattern zero-extended from its own width, a literal's pattern taken at the common width."""
    (lk, lv, lw, ls), (rk, rv, rw, rs) = L, R
    W = max(lw, rw)
    if ls and rs:
        a, b = lift(lv), lift(rv)
    else:
        a = upat(lv, lw if lk == "field" else W)
        b = upat(rv, rw if rk == "field" else W)
    return {"Lt": a < b, "Le": a <= b, "Gt": a > b, "Ge": a >= b, "Eq": a == b, "Ne": a != b}[op]


def dispatch_cases(tier, seed):
    ws = [(8, False), (8, True), (4, False), (32, True)] if tier != "thorough" else \
        [(w, s) for w in (1, 4, 8, 16, 32, 33, 64) for s in (False, True)]
    out = []
    for op in ("Lt", "Le", "Gt", "Ge", "Eq"):
        for (w, s) in ws:
            for shape in ("f_lit", "lit_f", "f_nr", "nr_f", "f_f", "f_nrplus", "f_rplusnr", "f_nrplusr", "f_nrplusnr"):
                out.append((op, w, s, shape))
    return out


@contract("bounds.visitor.dispatch", ["C14", "C02"],
          ["vsc.visitors.variable_bound_visitor.VariableBoundVisitor.process",
           "vsc.visitors.variable_bound_visitor.VariableBoundVisitor.visit_expr_bin",
           "vsc.visitors.variable_bound_visitor.VariableBoundVisitor.lhsvar_rhsnre_propagator",
           "vsc.visitors.variable_bound_visitor.VariableBoundVisitor.lhsnre_rhsvar_propagator",
           "vsc.visitors.variable_bound_visitor.VariableBoundVisitor.lhsvar_rhsvar_propagator",
           "vsc.visitors.is_nonrand_expr_visitor.IsNonRandExprVisitor.is_nonrand",
           "vsc.model.expr_bin_model.ExprBinModel.val", "vsc.model.variable_bound_scalar_model.VariableBoundScalarModel.__init__"],
          dispatch_cases, max_paths=50000,
          note="bound inference for one top-level relational statement: operators < <= > >= ==; operand shapes field/literal, "
               "literal/field, field/non-random field, field/field, field/(non-random + literal), field/(random + non-random), "
               "field/(non-random + random); same-type operands of the enumerated widths/signs; literal = 32-bit signed Python int; "
               "values symbolic")
def c_dispatch(c, op, w, s, shape):
    from vsc.model.field_scalar_model import FieldScalarModel
    from vsc.model.field_composite_model import FieldCompositeModel
    from vsc.model.constraint_block_model import ConstraintBlockModel
    from vsc.model.constraint_expr_model import ConstraintExprModel
    from vsc.model.expr_bin_model import ExprBinModel
    from vsc.model.expr_fieldref_model import ExprFieldRefModel
    from vsc.model.expr_literal_model import ExprLiteralModel
    from vsc.model.bin_expr_type import BinExprType
    from vsc.visitors.variable_bound_visitor import VariableBoundVisitor
    root = FieldCompositeModel("o", True)
    a = FieldScalarModel("a", w, s, True)          # random target
    b = FieldScalarModel("b", w, s, True)          # a second random field
    n = FieldScalarModel("n", w, s, False)         # non-random field
    n2 = FieldScalarModel("n2", w, s, False)       # a second non-random field
    for f in (a, b, n, n2):
        root.add_field(f)
    root.set_used_rand(True, 0)
    # previous values left in the fields by earlier calls: arbitrary in-type values
    for f in (a, b, n, n2):
        pv = c.fresh_int("prev_" + f.name)
        c.assume(in_type(pv, w, s))
        f.val.v = pv
    k = c.fresh_int("k", -(1 << 31), (1 << 31) - 1)
    lit = ExprLiteralModel(k, True, 32)
    A, B, N, N2 = ExprFieldRefModel(a), ExprFieldRefModel(b), ExprFieldRefModel(n), ExprFieldRefModel(n2)
    plus = lambda x, y: ExprBinModel(x, BinExprType.Add, y)
    sides = {"f_lit": (A, lit), "lit_f": (lit, A), "f_nr": (A, N), "nr_f": (N, A), "f_f": (A, B),
             "f_nrplus": (A, plus(N, lit)), "f_rplusnr": (A, plus(B, N)), "f_nrplusr": (A, plus(N, B)), "f_nrplusnr": (A, plus(N, N2))}[shape]
    st = ConstraintExprModel(ExprBinModel(sides[0], BinExprType[op], sides[1]))
    blk = ConstraintBlockModel("c", [st])
    root.add_constraint(blk)
    v = VariableBoundVisitor()
    v.process([root], [])
    dom = [(r[0], r[1]) for r in v.bound_m[a].domain.range_l]
    # a candidate solution: values of a and b (random), n keeps its current value
    xa, xb = c.fresh_int("xa"), c.fresh_int("xb")
    c.assume(in_type(xa, w, s))
    c.assume(in_type(xb, w, s))
    nv = n.val.v
    Fa, Fb, Fn = ("field", xa, w, s), ("field", xb, w, s), ("field", nv, w, s)
    L32 = ("lit", k, 32, True)
    if shape in ("f_nrplus", "f_rplusnr", "f_nrplusr", "f_nrplusnr"):
        # arithmetic right-hand side: value of (x + y) at the node's width W = max(w, 32 for a literal), signed iff both are
        if shape == "f_nrplus":
            W = max(w, 32)
            sg = s
            sumv = wrap(lift(nv) + k, W, sg) if sg else upat(upat(nv, w) + upat(k, W), W)
            Rop = ("lit", sumv, W, sg)
        else:
            x1, x2 = {"f_rplusnr": (xb, nv), "f_nrplusr": (nv, xb), "f_nrplusnr": (nv, n2.val.v)}[shape]
            sumv = wrap(lift(x1) + x2, w, s)
            Rop = ("lit", sumv, w, s)
        truth = cmp_truth(op, Fa, Rop)
    else:
        ops_ = {"f_lit": (Fa, L32), "lit_f": (L32, Fa), "f_nr": (Fa, Fn), "nr_f": (Fn, Fa), "f_f": (Fa, Fb)}[shape]
        truth = cmp_truth(op, *ops_)
    c.prove("Sound(dom_a): every value of a in a solution of the statement lies in the inferred domain",
            Implies(truth, member(xa, dom)), info="domain %r" % (dom,), assume=False)
    lo_t, hi_t = (-(1 << (w - 1)), (1 << (w - 1)) - 1) if s else (0, (1 << w) - 1)
    c.prove("when the statement is satisfiable the inferred domain stays inside the field's type range (the swizzler "
            "slices the field by the domain's bit length: a wider domain makes Boolector raise)",
            Implies(truth, And(*[Implies(lo <= hi, And(lo >= lo_t, hi <= hi_t)) for lo, hi in dom])),
            info="domain %r" % (dom,), assume=False)


# ---- initial domains --------------------------------------------------------------------------------------------
@contract("bounds.initial_domain.scalar", ["C14"], ["vsc.model.variable_bound_scalar_model.VariableBoundScalarModel.__init__"],
          lambda tier, seed: [(w, s) for w in widths(tier, seed) for s in (False, True)])
def c_init_scalar(c, w, s):
    from vsc.model.field_scalar_model import FieldScalarModel
    from vsc.model.variable_bound_scalar_model import VariableBoundScalarModel
    b = VariableBoundScalarModel(FieldScalarModel("f", w, s, True))
    lo, hi = (-(1 << (w - 1)), (1 << (w - 1)) - 1) if s else (0, (1 << w) - 1)
    c.prove("a field no constraint mentions ranges over its whole type (initial domain == type range)",
            [list(r) for r in b.domain.range_l] == [[lo, hi]])
    c.prove("isEmpty() is false for a type with more than one value", b.isEmpty() == (w == 1 and False))


@contract("bounds.initial_domain.enum", ["C14"], ["vsc.model.variable_bound_enum_model.VariableBoundEnumModel.__init__"],
          lambda tier, seed: [(k,) for k in (1, 2, 3, 4)], max_paths=5000,
          note="enum initial domain: enumerator lists of length 1..4 with symbolic distinct values in any declaration order")
def c_init_enum(c, k):
    from vsc.model.enum_field_model import EnumFieldModel
    from vsc.model.variable_bound_enum_model import VariableBoundEnumModel
    es = [c.fresh_int("e", -(1 << 31), (1 << 31) - 1) for _ in range(k)]
    c.assume(And(*[es[i] != es[j] for i in range(k) for j in range(i + 1, k)]))
    b = VariableBoundEnumModel(EnumFieldModel("e", list(es), True))
    dom = _ranges(b)
    v = c.fresh_int("v")
    c.prove("initial domain of an enum field == its enumerator set (forall v)", Iff(member(v, dom), Or(*[v == e for e in es])))
    c.prove("initial domain is ascending and disjoint whatever the declaration order (every propagator assumes ordered ranges)",
            sorted_disjoint(dom))


@contract("bounds.enum_family", ["C14"],
          ["vsc.model.variable_bound_enum_model.VariableBoundEnumModel.__init__", "vsc.visitors.variable_bound_visitor.VariableBoundVisitor.visit_enum_field",
           "vsc.model.variable_bound_in_propagator.VariableBoundInPropagator.propagate"],
          lambda tier, seed: [(i,) for i in range(24 if tier != "thorough" else 120)], kind="bounded",
          bound="enum classes of 4 enumerators with every declaration order of the values {1,2,4,16} x every non-empty subset used in an "
                "`inside` constraint; inferred domain compared with the feasible set")
def c_enum_family(c, idx):
    import itertools as it
    import vsc
    from enum import IntEnum
    from vsc.visitors.variable_bound_visitor import VariableBoundVisitor
    perms = list(it.permutations([1, 2, 4, 16]))
    vals = perms[idx % len(perms)]
    E = IntEnum("E", {"A": vals[0], "B": vals[1], "C": vals[2], "D": vals[3]})
    members = list(E)
    for r in (1, 2, 3):
        for sub in list(it.combinations(members, r))[idx // len(perms)::5] or [tuple(members[:r])]:
            @vsc.randobj
            class P(object):
                def __init__(self):
                    self.op = vsc.rand_enum_t(E)

                @vsc.constraint
                def c(self):
                    self.op.inside(vsc.rangelist(*sub))
            o = P()
            m = o.get_model()
            m.set_used_rand(True, 0)
            bv = VariableBoundVisitor()
            bv.process([m], [])
            dom = [b for f, b in bv.bound_m.items() if f.name == "op"][0].domain.range_l
            miss = [int(e) for e in sub if not any(lo <= int(e) <= hi for lo, hi in dom)]
            c.check("C14: every enumerator admitted by the `inside` constraint lies in the inferred domain", not miss,
                    info="values %r inside %r domain %r" % (vals, [int(e) for e in sub], dom))


# ---- C02: constant folding of if-conditions agrees with the solver's meaning ----------------------------------------------
def fold_cases(tier, seed):
    ts = [(4, False), (4, True), (8, False), (8, True), (32, True)] if tier != "thorough" else \
        [(w, s) for w in (1, 4, 8, 16, 32, 33, 64) for s in (False, True)]
    out = []
    for op in ("Lt", "Le", "Gt", "Ge", "Eq", "Ne"):
        for (w, s) in ts:
            for (w2, s2) in ((w, s), (w, not s)):
                for shape in ("f_f", "f_lit", "fplusf_f", "fpluslit_f"):
                    out.append((op, w, s, w2, s2, shape))
            for j in (0, 1, 2):
                out.append((op, w, s, w, s, "sub%d_lit" % j))       # non-random list element selected by the foreach index
            if op in ("Eq", "Lt"):
                out.append((op, w, s, w, s, "not_f_lit"))          # ~(field op literal)
                out.append((op, w, s, w, s, "psel_lit"))           # field[hi:lo] op literal
                out.append((op, w, s, w, s, "objfield_lit"))       # non-random object list: list[index].field op literal
    return out


@contract("x_expr_evaluator.fold", ["C02"],
          ["vsc.visitors.x_expr_evaluator.XExprEvaluator.eval", "vsc.visitors.x_expr_evaluator.XExprEvaluator.visit_expr_bin",
           "vsc.visitors.x_expr_evaluator.XExprEvaluator.visit_scalar_field", "vsc.visitors.x_expr_evaluator.XExprEvaluator.visit_expr_literal",
           "vsc.visitors.x_expr_evaluator.XExprEvaluator.visit_expr_array_subscript", "vsc.visitors.x_expr_evaluator.XExprEvaluator.visit_expr_unary",
           "vsc.visitors.x_expr_evaluator.XExprEvaluator.visit_expr_partselect", "vsc.visitors.x_expr_evaluator.XExprEvaluator.visit_expr_indexed_fieldref",
           "vsc.visitors.array_constraint_builder.ArrayConstraintBuilder.visit_constraint_if_else"],
          fold_cases, max_paths=5000,
          note="folding of an if-condition over non-random operands: 6 comparison operators x operand types x shapes field/field, "
               "field/literal, (field+field)/field, (field+literal)/field, (non-random list[index])/literal for each index of a 3-element list, "
               "~(field op literal), field[hi:lo] op literal, (non-random object list)[index].field op literal; "
               "all in-type values")
def c_fold(c, op, w, s, w2, s2, shape):
    from vsc.model.field_scalar_model import FieldScalarModel
    from vsc.model.expr_bin_model import ExprBinModel
    from vsc.model.expr_fieldref_model import ExprFieldRefModel
    from vsc.model.expr_literal_model import ExprLiteralModel
    from vsc.model.bin_expr_type import BinExprType
    from vsc.visitors.x_expr_evaluator import XExprEvaluator
    n1 = FieldScalarModel("n1", w, s, False)
    n2 = FieldScalarModel("n2", w2, s2, False)
    n3 = FieldScalarModel("n3", w, s, False)
    for f in (n1, n2, n3):
        f.is_used_rand = False
        v = c.fresh_int("v_" + f.name)
        c.assume(in_type(v, f.width, f.is_signed))
        f.val.v = v
    k = c.fresh_int("k", -(1 << 31), (1 << 31) - 1)
    N1, N2, N3, L = ExprFieldRefModel(n1), ExprFieldRefModel(n2), ExprFieldRefModel(n3), ExprLiteralModel(k, True, 32)
    F1, F2, F3, LK = ("field", n1.val.v, w, s), ("field", n2.val.v, w2, s2), ("field", n3.val.v, w, s), ("lit", k, 32, True)
    if shape in ("not_f_lit", "psel_lit", "objfield_lit"):
        from vsc.model.expr_unary_model import ExprUnaryModel
        from vsc.model.unary_expr_type import UnaryExprType
        from vsc.model.expr_partselect_model import ExprPartselectModel
        from vsc.model.expr_indexed_field_ref_model import ExprIndexedFieldRefModel
        from vsc.model.expr_array_subscript_model import ExprArraySubscriptModel
        from vsc.model.field_array_model import FieldArrayModel
        from vsc.model.field_composite_model import FieldCompositeModel
        if shape == "not_f_lit":
            e = ExprUnaryModel(UnaryExprType.Not, ExprBinModel(N1, BinExprType[op], L))
            truth = Not(cmp_truth(op, F1, LK))
        elif shape == "psel_lit":
            hi, lo = (w - 1, w // 2) if w > 1 else (0, 0)
            e = ExprBinModel(ExprPartselectModel(N1, ExprLiteralModel(hi, False, 32), ExprLiteralModel(lo, False, 32)), BinExprType[op], L)
            pw = hi - lo + 1
            pv = (upat(n1.val.v, w) // (1 << lo)) % (1 << pw)
            truth = cmp_truth(op, ("field", pv, pw, False), LK)          # a part-select is unsigned
        else:
            oarr = FieldArrayModel("ol", None, False, None, -1, -1, False, False)
            vals = []
            for k_ in range(3):
                o = FieldCompositeModel("o%d" % k_, False)
                f0 = o.add_field(FieldScalarModel("en", w, s, False))
                f1 = o.add_field(FieldScalarModel("mode", w, s, False))
                for f in (f0, f1):
                    f.is_used_rand = False
                    vv = c.fresh_int("ov")
                    c.assume(in_type(vv, w, s))
                    f.val.v = vv
                o.is_used_rand = False
                vals.append(f0.val.v)
                oarr.append(o)
                oarr.field_l[-1].is_used_rand = False
            oarr.is_used_rand = False
            idx = FieldScalarModel("index", 32, False, False)
            idx.is_used_rand = False
            idx.set_val(1)
            sub = ExprArraySubscriptModel(ExprFieldRefModel(oarr), ExprFieldRefModel(idx))
            e = ExprBinModel(ExprIndexedFieldRefModel(sub, [0]), BinExprType[op], L)
            truth = cmp_truth(op, ("field", vals[1], w, s), LK)
    elif shape.startswith("sub"):
        from vsc.model.field_array_model import FieldArrayModel
        from vsc.model.expr_array_subscript_model import ExprArraySubscriptModel
        j = int(shape[3])

        class T:
            width = w
        arr = FieldArrayModel("nl", T(), True, None, w, s, False, False)
        vals = []
        for _ in range(3):
            f = arr.add_field()
            f.is_used_rand = False
            v = c.fresh_int("e")
            c.assume(in_type(v, w, s))
            f.val.v = v
            vals.append(v)
        arr.is_used_rand = False
        idx = FieldScalarModel("index", 32, False, False)
        idx.is_used_rand = False
        idx.set_val(j)
        e = ExprBinModel(ExprArraySubscriptModel(ExprFieldRefModel(arr), ExprFieldRefModel(idx)), BinExprType[op], L)
        truth = cmp_truth(op, ("field", vals[j], w, s), LK)
    elif shape == "f_f":
        e, truth = ExprBinModel(N1, BinExprType[op], N2), cmp_truth(op, F1, F2)
    elif shape == "f_lit":
        e, truth = ExprBinModel(N1, BinExprType[op], L), cmp_truth(op, F1, LK)
    elif shape == "fplusf_f":
        e = ExprBinModel(ExprBinModel(N1, BinExprType.Add, N3), BinExprType[op], N2)
        W = max(w, w2)
        sumv = wrap(lift(n1.val.v) + n3.val.v, W, s) if s else upat(upat(n1.val.v, w) + upat(n3.val.v, w), W)
        truth = cmp_truth(op, ("lit", sumv, W, s), F2)
    else:
        e = ExprBinModel(ExprBinModel(N1, BinExprType.Add, L), BinExprType[op], N2)
        W = max(w, 32, w2)
        sumv = wrap(lift(n1.val.v) + k, W, s) if s else upat(upat(n1.val.v, w) + upat(k, W), W)
        truth = cmp_truth(op, ("lit", sumv, W, s), F2)
    is_x, val = XExprEvaluator().eval(e)
    c.prove("a condition over non-random operands is recognised as constant", is_x is False)
    got = bool(val)
    c.prove("the folded truth value agrees with the solver's meaning of the condition (R-EXPR)", Iff(got, truth))


# ---- conditionals: statements under if/else/implies never narrow a domain ------------------------------------------
COND_SHAPES = {
    # name: statement tree.  ("cmp", op) -> a op k ; ("in",) -> a in [k, k2] ; ("g", j) -> g_j == 0 (something else under a guard)
    "if":            [("if", 0, [("cmp", "Lt")], None)],
    "if_else":       [("if", 0, [("g", 1)], [("cmp", "Gt")])],
    "implies":       [("implies", 0, [("cmp", "Le")])],
    "nested_then":   [("if", 0, [("if", 1, [("g", 1)], None), ("cmp", "Lt")], None)],
    "nested_else":   [("if", 0, [("if", 1, [("g", 1)], None)], [("cmp", "Lt")])],
    "nested_in":     [("if", 0, [("implies", 1, [("g", 1)]), ("in",)], None)],
    "implies_nest":  [("implies", 0, [("if", 1, [("g", 1)], [("g", 1)]), ("cmp", "Ge")])],
    "deep":          [("if", 0, [("if", 1, [("implies", 0, [("g", 1)]), ("cmp", "Eq")], None), ("cmp", "Lt")], None)],
    "elseif":        [("if", 0, [("g", 1)], [("if", 1, [("g", 0)], [("cmp", "Lt")])])],
    "then_top":      [("if", 0, [("if", 1, [("g", 1)], None)], None), ("cmp", "Lt")],
    "top_then":      [("cmp", "Gt"), ("if", 0, [("if", 1, [("g", 1)], None), ("cmp", "Lt")], None)],
    # Boolean composition at expression level: only a top-level conjunct may narrow
    "or_expr":       [("bool", "Or", "Lt", "Gt2")],
    "and_expr":      [("bool", "And", "Gt", "Lt2")],
    "not_expr":      [("not", "Lt")],
    "or_in_if":      [("if", 0, [("bool", "Or", "Lt", "Gt2")], [("not", "Gt")])],
    "soft_top":      [("soft", "Lt"), ("cmp", "Gt")],
}


@contract("bounds.visitor.conditional", ["C14"],
          ["vsc.visitors.variable_bound_visitor.VariableBoundVisitor.visit_constraint_if_else",
           "vsc.visitors.variable_bound_visitor.VariableBoundVisitor.visit_constraint_implies",
           "vsc.visitors.variable_bound_visitor.VariableBoundVisitor.visit_expr_bin",
           "vsc.visitors.variable_bound_visitor.VariableBoundVisitor.visit_expr_in"],
          lambda tier, seed: [(nm,) for nm in sorted(COND_SHAPES)], max_paths=20000,
          note="bound inference over blocks with conditionals and Boolean composition (16 statement trees: or / and / not expressions, soft, if, if/else, implies, nesting in then / else "
               "branches, statements after a nested conditional, else-if chain, unconditional statements before/after); 8-bit "
               "unsigned fields, symbolic bounds; Sound: every value of a in a solution of the block (R-EXPR) is in the domain")
def c_conditional(c, name):
    from vsc.model.field_scalar_model import FieldScalarModel
    from vsc.model.field_composite_model import FieldCompositeModel
    from vsc.model.constraint_block_model import ConstraintBlockModel
    from vsc.model.constraint_expr_model import ConstraintExprModel
    from vsc.model.constraint_if_else_model import ConstraintIfElseModel
    from vsc.model.constraint_implies_model import ConstraintImpliesModel
    from vsc.model.constraint_scope_model import ConstraintScopeModel
    from vsc.model.expr_bin_model import ExprBinModel
    from vsc.model.expr_in_model import ExprInModel
    from vsc.model.expr_rangelist_model import ExprRangelistModel
    from vsc.model.expr_range_model import ExprRangeModel
    from vsc.model.expr_fieldref_model import ExprFieldRefModel
    from vsc.model.expr_literal_model import ExprLiteralModel
    from vsc.model.bin_expr_type import BinExprType
    from vsc.model.expr_unary_model import ExprUnaryModel
    from vsc.model.unary_expr_type import UnaryExprType
    from vsc.model.constraint_soft_model import ConstraintSoftModel
    from vsc.visitors.variable_bound_visitor import VariableBoundVisitor
    W = 8
    root = FieldCompositeModel("o", True)
    a = root.add_field(FieldScalarModel("a", W, False, True))
    gs = [root.add_field(FieldScalarModel("g%d" % i, W, False, True)) for i in range(2)]
    root.set_used_rand(True, 0)
    k = c.fresh_int("k", 0, 255)
    k2 = c.fresh_int("k2", 0, 255)
    xa = c.fresh_int("xa", 0, 255)
    xg = [c.fresh_int("xg%d" % i, 0, 255) for i in range(2)]
    A = ExprFieldRefModel(a)

    def lit(v):
        return ExprLiteralModel(v, False, 32)

    def guard(j):
        return ExprBinModel(ExprFieldRefModel(gs[j]), BinExprType.Eq, lit(0))

    def build(tree):
        """-> (list of statements, truth of their conjunction for the candidate xa, xg)"""
        out, truth = [], []
        for t in tree:
            if t[0] == "cmp":
                out.append(ConstraintExprModel(ExprBinModel(A, BinExprType[t[1]], lit(k))))
                truth.append({"Lt": xa < k, "Le": xa <= k, "Gt": xa > k, "Ge": xa >= k, "Eq": xa == k}[t[1]])
            elif t[0] == "in":
                out.append(ConstraintExprModel(ExprInModel(A, ExprRangelistModel([ExprRangeModel(lit(k), lit(k2))]))))
                truth.append(And(xa >= k, xa <= k2))
            elif t[0] in ("bool", "not", "soft"):
                def rel(nm):
                    kk = k2 if nm.endswith("2") else k
                    op = nm.rstrip("2")
                    return (ExprBinModel(A, BinExprType[op], lit(kk)),
                            {"Lt": xa < kk, "Le": xa <= kk, "Gt": xa > kk, "Ge": xa >= kk, "Eq": xa == kk}[op])
                if t[0] == "bool":
                    (e1, t1), (e2, t2) = rel(t[2]), rel(t[3])
                    out.append(ConstraintExprModel(ExprBinModel(e1, BinExprType[t[1]], e2)))
                    truth.append(Or(t1, t2) if t[1] == "Or" else And(t1, t2))
                elif t[0] == "not":
                    e1, t1 = rel(t[1])
                    out.append(ConstraintExprModel(ExprUnaryModel(UnaryExprType.Not, e1)))
                    truth.append(Not(t1))
                else:
                    e1, t1 = rel(t[1])
                    out.append(ConstraintSoftModel(e1))      # a soft statement never restricts the solution set
            elif t[0] == "g":
                out.append(ConstraintExprModel(guard(t[1])))
                truth.append(xg[t[1]] == 0)
            elif t[0] == "if":
                ts, tt = build(t[2])
                es, et = build(t[3]) if t[3] is not None else (None, None)
                if es is not None and len(es) == 1 and isinstance(es[0], ConstraintIfElseModel):
                    false_c = es[0]              # else_if: the next if statement itself
                else:
                    false_c = None if es is None else ConstraintScopeModel(es)
                out.append(ConstraintIfElseModel(guard(t[1]), ConstraintScopeModel(ts), false_c))
                g = xg[t[1]] == 0
                truth.append(And(Implies(g, tt), Implies(Not(g), et)) if es is not None else Implies(g, tt))
            else:
                bs, bt_ = build(t[2])
                out.append(ConstraintImpliesModel(guard(t[1]), bs))
                truth.append(Implies(xg[t[1]] == 0, bt_))
        return out, And(*truth)
    stmts, truth = build(COND_SHAPES[name])
    root.add_constraint(ConstraintBlockModel("c", stmts))
    v = VariableBoundVisitor()
    v.process([root], [])
    dom = [(r[0], r[1]) for r in v.bound_m[a].domain.range_l]
    c.prove("Sound(dom_a) for a block with conditionals: every value of a in a solution of the block lies in the inferred domain",
            Implies(truth, member(xa, dom)), info="domain %r" % (dom,), assume=False)
    for j in range(2):
        dg = [(r[0], r[1]) for r in v.bound_m[gs[j]].domain.range_l]
        c.prove("Sound(dom_g): the guard fields' domains are sound as well", Implies(truth, member(xg[j], dg)),
                info="domain %r" % (dg,), assume=False)
