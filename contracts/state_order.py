"""C09 snapshot / default-state contracts, C20 ordering contracts, C05 soft-priority arithmetic and guard re-expression."""
import itertools
import z3
from pyvc.contract import contract
from pyvc.sym import And, Or, Not, Implies, Ite, Iff, lift
from pyvc.ghost import patched, TripWire


# ---- C09: random state -----------------------------------------------------------------------------------------
class GhostRandomModule:
    """ghost `random` module: Random() objects carry an abstract state value; randint on the module itself is logged"""

    def __init__(self, log):
        self.log = log
        outer = self

        class Random:
            n = 0

            def __init__(self, *a):
                Random.n += 1
                self.id = Random.n
                self.state = ("fresh", self.id)
                self.draws = 0

            def seed(self, s):
                self.state = ("seeded", s)
                self.draws = 0

            def getstate(self):
                return ("S", self.state, self.draws)

            def setstate(self, st):
                assert st[0] == "S"
                self.state = st[1]
                self.draws = st[2]

            def randint(self, lo, hi):
                self.draws += 1
                return lo
        self.Random = Random

    def randint(self, lo, hi):
        self.log.append(("global.randint", lo, hi))
        return 12345

    def __getattr__(self, n):
        self.log.append(("global." + n,))
        raise AssertionError("unexpected use of random.%s" % n)


@contract("rand_state.snapshot", ["C09"],
          ["vsc.model.rand_state.RandState.clone", "vsc.model.rand_state.RandState.__init__", "vsc.model.rand_state.RandState.mk",
           "vsc.impl.randobj_int.RandObjInt.get_randstate", "vsc.impl.randobj_int.RandObjInt.set_randstate",
           "vsc.rand_obj._randobj.__call__"],
          lambda tier, seed: [()], replay="none")
def c_snapshot(c):
    import vsc.model.rand_state as RS
    import vsc.impl.randobj_int as RI
    log = []
    g = GhostRandomModule(log)
    with patched((RS, "random", g)):
        a = RS.RandState(5)
        a.rng.randint(0, 9)
        b = a.clone()
        c.prove("clone: a new object with its own generator", b is not a and b.rng is not a.rng)
        c.prove("clone: generator state equals the source's", b.rng.getstate() == a.rng.getstate())
        a.rng.randint(0, 9)
        c.prove("clone: later draws on the source do not affect the snapshot (nothing shared)",
                b.rng.getstate() != a.rng.getstate() and b.rng.draws == 1)
        c.prove("clone / construction take no draw from the global random module", log == [])
        ro = RI.RandObjInt()
        src = RS.RandState(9)
        ro.set_randstate(src)
        c.prove("set_randstate stores a copy of its argument (the argument can seed further replays)",
                ro.randstate is not src and ro.randstate.rng is not src.rng and ro.randstate.rng.getstate() == src.rng.getstate())
        ro.get_randstate().rng.randint(0, 1)
        c.prove("draws of the object do not advance the caller's RandState", src.rng.draws == 0)
        ro2 = RI.RandObjInt()
        ro2.set_randstate(src)
        c.prove("one RandState seeds several replays identically", ro2.randstate.rng.getstate() == ("S", ("seeded", "9"), 0))
        c.prove("internal get_randstate returns the object's own state (by reference, for the solve path)",
                ro.get_randstate() is ro.randstate)
        log.clear()
        d = RI.RandObjInt().get_randstate()
        c.prove("without an explicit state the default is derived from exactly one draw of the global random module",
                log == [("global.randint", 0, 0xFFFFFFFF)] and d.rng.getstate() == ("S", ("seeded", "12345"), 0))
    # seeds are derived without process-dependent values: hash() / id() are trip-wires in the module
    trip = []

    def _tw(name):
        def f(*a, **k):
            trip.append(name)
            return 12345            # the use is logged; the obligation below fails
        return f
    g2 = GhostRandomModule(log)
    with patched((RS, "random", g2), (RS, "hash", _tw("hash")), (RS, "id", _tw("id"))):
        s1 = RS.RandState.mkFromSeed(7, "top.env.agent0")
        s2 = RS.RandState.mkFromSeed(7, "top.env.agent0")
        s3 = RS.RandState.mkFromSeed(7)
        s4 = RS.RandState.mkFromSeed(7, "other")
    c.prove("mkFromSeed derives the generator seed from (seed, string) only: no hash()/id(), equal inputs give equal states, "
            "different strings give different states",
            trip == [] and s1.rng.getstate() == s2.rng.getstate() and s1.rng.getstate() != s4.rng.getstate()
            and s3.rng.getstate() == ("S", ("seeded", "7"), 0))
    # facade: get_randstate returns an independent snapshot
    import vsc

    @vsc.randobj
    class C(object):
        def __init__(self):
            self.a = vsc.rand_bit_t(4)
    o = C()
    o.set_randstate(RS.RandState.mkFromSeed(3))
    s1 = o.get_randstate()
    s2 = o.get_randstate()
    c.prove("obj.get_randstate() returns a fresh independent copy each time",
            s1 is not s2 and s1 is not o._get_ro_int().randstate and s1.rng.getstate() == s2.rng.getstate())


@contract("methods.default_randstate", ["C09"], ["vsc.methods.randomize", "vsc.methods.randomize_with"],
          lambda tier, seed: [(k,) for k in ("randomize", "randomize_with", "randomize_rs", "randomize_with_rs")], replay="none")
def c_default_state(c, kind):
    import vsc
    import vsc.methods as M
    from vsc.model.rand_state import RandState
    log = []
    calls = []

    class R:
        @staticmethod
        def do_randomize(rs, si, fl, cl=None, **kw):
            calls.append((rs, len(fl), None if cl is None else len(cl)))

    class GR:
        def randint(self, lo, hi):
            log.append((lo, hi))
            return 77

        def __getattr__(self, n):
            raise AssertionError("unexpected random.%s" % n)
    a = vsc.rand_bit_t(4)
    a.get_model()
    mine = RandState.mkFromSeed(1)
    with patched((M, "random", GR()), (M, "Randomizer", R)):
        if kind == "randomize":
            M.randomize(a)
        elif kind == "randomize_rs":
            M.randomize(a, randstate=mine)
        elif kind == "randomize_with":
            with M.randomize_with(a):
                a < 3
        else:
            with M.randomize_with(a, randstate=mine):
                a < 3
    c.prove("exactly one solve is started", len(calls) == 1)
    if kind.endswith("_rs"):
        c.prove("an explicit randstate is used as given and the global random module is not touched",
                log == [] and calls[0][0] is mine)
    else:
        c.prove("without a randstate exactly one draw is taken from the global random module (range 0..2**32-1)",
                log == [(0, 0xFFFFFFFF)] and isinstance(calls[0][0], RandState))
    c.prove("the inline block is handed to that one call", calls[0][2] == (1 if "with" in kind else None))


# ---- C20: ordering ------------------------------------------------------------------------------------------------
def order_cases(tier, seed):
    out = []
    n = 4
    pairs = [(a, b) for a in range(n) for b in range(n) if a < b]      # acyclic directives: before a, after b (a < b)
    for k in (1, 2, 3):
        for ds in itertools.combinations(pairs, k):
            out.append((n, list(ds)))
    if tier != "thorough":
        out = out[::3]
    return out


@contract("rand_info_builder.ordering", ["C20", "C09"],
          ["vsc.model.rand_info_builder.RandInfoBuilder.build", "vsc.model.rand_info_builder.RandInfoBuilder.visit_constraint_solve_order",
           "vsc.visitors.expand_solve_order_visitor.ExpandSolveOrderVisitor.expand",
           "vsc.visitors.expand_solve_order_visitor.ExpandSolveOrderVisitor.visit_scalar_field",
           "vsc.constraints.solve_order"], order_cases, replay="none",
          note="ordering: 4 random fields in one rand set (linked by one relational statement), every set of 1..3 acyclic "
               "solve_order directives (quick: every third); toposort is run natively")
def c_ordering(c, n, directives):
    from vsc.model.field_composite_model import FieldCompositeModel
    from vsc.model.field_scalar_model import FieldScalarModel
    from vsc.model.constraint_block_model import ConstraintBlockModel
    from vsc.model.constraint_expr_model import ConstraintExprModel
    from vsc.model.constraint_solve_order_model import ConstraintSolveOrderModel
    from vsc.model.expr_bin_model import ExprBinModel
    from vsc.model.expr_fieldref_model import ExprFieldRefModel
    from vsc.model.bin_expr_type import BinExprType
    import vsc.model.rand_info_builder as RIB
    root = FieldCompositeModel("o", True)
    fs = [root.add_field(FieldScalarModel("f%d" % i, 4, False, True)) for i in range(n)]
    root.set_used_rand(True, 0)
    e = ExprFieldRefModel(fs[0])
    for f in fs[1:]:
        e = ExprBinModel(e, BinExprType.Add, ExprFieldRefModel(f))
    blk = ConstraintBlockModel("c", [ConstraintExprModel(ExprBinModel(e, BinExprType.Lt, ExprFieldRefModel(fs[0])))] +
                               [ConstraintSolveOrderModel([fs[a]], [fs[b]]) for a, b in directives])
    root.add_constraint(blk)
    trip = []
    with patched((RIB, "random", TripWire("random", trip))):
        ri = RIB.RandInfoBuilder.build([root], [], rng=None)
    c.prove("all linked fields form one rand set", len(ri.randsets()) == 1 and set(ri.randsets()[0].fields()) == set(fs))
    rs = ri.randsets()[0]
    groups = rs.rand_order_l
    c.prove("ordering directives produce an ordered list of groups", isinstance(groups, list) and all(isinstance(g, list) for g in groups))
    pos = {}
    for gi, g in enumerate(groups):
        for f in g:
            pos.setdefault(f, []).append(gi)
    c.prove("for every directive solve_order(a, b) the group of a precedes the group of b",
            all(fs[a] in pos and fs[b] in pos and max(pos[fs[a]]) < min(pos[fs[b]]) for a, b in directives),
            info=repr([[f.name for f in g] for g in groups]))
    c.prove("every ordered field appears exactly once", all(len(v) == 1 for v in pos.values()))
    c.prove("fields inside a group follow the rand set's field order (no set iteration order leaks)",
            all([rs.fields().index(f) for f in g] == sorted(rs.fields().index(f) for f in g) for g in groups))
    c.prove("no use of the global random module while building rand sets", trip == [])


# ---- C05: priorities and guards -------------------------------------------------------------------------------------
def soft_shapes(tier, seed):
    return [("flat", 3), ("if", 1), ("ifelse", 1), ("implies", 1), ("nested", 1), ("inline", 2), ("elseif", 1), ("implies_in_if", 1)]


@contract("rand_info_builder.soft_priority", ["C05"],
          ["vsc.model.rand_info_builder.RandInfoBuilder.visit_constraint_soft",
           "vsc.model.rand_info_builder.RandInfoBuilder.visit_constraint_if_else",
           "vsc.model.rand_info_builder.RandInfoBuilder.visit_constraint_implies",
           "vsc.visitors.clear_soft_priority_visitor.ClearSoftPriorityVisitor.visit_constraint_soft",
           "vsc.model.rand_set.RandSet.add_constraint"], soft_shapes, replay="none")
def c_soft_priority(c, shape, k):
    from vsc.model.field_composite_model import FieldCompositeModel
    from vsc.model.field_scalar_model import FieldScalarModel
    from vsc.model.constraint_block_model import ConstraintBlockModel
    from vsc.model.constraint_expr_model import ConstraintExprModel
    from vsc.model.constraint_soft_model import ConstraintSoftModel
    from vsc.model.constraint_if_else_model import ConstraintIfElseModel
    from vsc.model.constraint_implies_model import ConstraintImpliesModel
    from vsc.model.constraint_scope_model import ConstraintScopeModel
    from vsc.model.expr_bin_model import ExprBinModel
    from vsc.model.expr_unary_model import ExprUnaryModel
    from vsc.model.expr_fieldref_model import ExprFieldRefModel
    from vsc.model.expr_literal_model import ExprLiteralModel
    from vsc.model.bin_expr_type import BinExprType
    from vsc.model.rand_info_builder import RandInfoBuilder
    from vsc.visitors.clear_soft_priority_visitor import ClearSoftPriorityVisitor
    root = FieldCompositeModel("o", True)
    a = root.add_field(FieldScalarModel("a", 4, False, True))
    b = root.add_field(FieldScalarModel("b", 4, False, True))
    root.set_used_rand(True, 0)
    A, B = ExprFieldRefModel(a), ExprFieldRefModel(b)

    def cmp(x, op, v):
        return ExprBinModel(x, BinExprType[op], ExprLiteralModel(v, False, 4))
    softs = [ConstraintSoftModel(cmp(A, "Eq", i)) for i in range(3)]
    g1, g2 = cmp(B, "Gt", 1), cmp(B, "Lt", 9)
    hard = ConstraintExprModel(ExprBinModel(A, BinExprType.Le, B))
    inline = []
    if shape == "flat":
        stmts = [hard] + softs
        exp_guards = [[], [], []]
    elif shape == "if":
        stmts = [hard, ConstraintIfElseModel(g1, ConstraintScopeModel([softs[0]]), None), softs[1], softs[2]]
        exp_guards = [[("pos", g1)], [], []]
    elif shape == "ifelse":
        stmts = [hard, ConstraintIfElseModel(g1, ConstraintScopeModel([softs[0]]), ConstraintScopeModel([softs[1]])), softs[2]]
        exp_guards = [[("pos", g1)], [("neg", g1)], []]
    elif shape == "implies":
        stmts = [hard, ConstraintImpliesModel(g1, [softs[0], softs[1]]), softs[2]]
        exp_guards = [[("pos", g1)], [("pos", g1)], []]
    elif shape == "nested":
        inner = ConstraintIfElseModel(g2, ConstraintScopeModel([softs[0]]), ConstraintScopeModel([softs[1]]))
        stmts = [hard, ConstraintIfElseModel(g1, ConstraintScopeModel([softs[2]]), ConstraintScopeModel([inner]))]
        softs = [softs[2], softs[0], softs[1]]
        exp_guards = [[("pos", g1)], [("neg", g1), ("pos", g2)], [("neg", g1), ("neg", g2)]]
    elif shape == "elseif":
        # the chain vsc.else_if builds: false_c is the next if/else statement itself (no scope in between)
        g3 = cmp(B, "Ne", 4)
        chain = ConstraintIfElseModel(g1, ConstraintScopeModel([softs[0]]),
                                      ConstraintIfElseModel(g2, ConstraintScopeModel([softs[1]]),
                                                            ConstraintIfElseModel(g3, ConstraintScopeModel([softs[2]]), None)))
        stmts = [hard, chain]
        exp_guards = [[("pos", g1)], [("neg", g1), ("pos", g2)], [("neg", g1), ("neg", g2), ("pos", g3)]]
    elif shape == "implies_in_if":
        stmts = [hard, ConstraintIfElseModel(g1, ConstraintScopeModel([ConstraintImpliesModel(g2, [softs[0]]), softs[1]]), None), softs[2]]
        exp_guards = [[("pos", g1), ("pos", g2)], [("pos", g1)], []]
    else:
        stmts = [hard, softs[0], softs[1]]
        inline = [ConstraintBlockModel("inline", [softs[2]])]
        exp_guards = [[], [], []]
    root.add_constraint(ConstraintBlockModel("c", stmts))
    # a previous call left priorities behind
    for i, s in enumerate(softs):
        s.priority = 40 + 7 * i
    clr = ClearSoftPriorityVisitor()
    clr.clear(root)
    for blk in inline:
        clr.clear(blk)
    c.prove("priorities are zeroed at the start of a call (class blocks and inline blocks)", all(s.priority == 0 for s in softs))
    ri = RandInfoBuilder.build([root], inline, None)
    c.prove("priority strictly increases in visit order: later in a block wins, inline after class blocks",
            all(softs[i].priority < softs[i + 1].priority for i in range(len(softs) - 1)),
            info=repr([s.priority for s in softs]))
    rs = ri.randsets()[0]
    sl = rs.soft_constraints()
    c.prove("no soft statement is in the hard list; every soft statement is in the soft list exactly once",
            not any(isinstance(x, ConstraintSoftModel) for x in rs.constraints())
            and all(sum(1 for x in sl if x is s or (isinstance(x, ConstraintImpliesModel) and x.constraint_l == [s])) == 1 for s in softs),
            info=repr(sl))
    for s, guards in zip(softs, exp_guards):
        entry = [x for x in sl if x is s or (isinstance(x, ConstraintImpliesModel) and x.constraint_l == [s])][0]
        if not guards:
            c.prove("an unguarded soft statement enters the soft list as itself", entry is s)
            continue
        c.prove("a guarded soft statement enters the soft list as (conjunction of guards) -> soft with the soft's priority",
                isinstance(entry, ConstraintImpliesModel) and entry.priority == s.priority)
        # structure of the guard: left-assoc AND of guards, a negated guard is Not(cond)
        terms = []
        e = entry.cond
        while isinstance(e, ExprBinModel) and e.op is BinExprType.And and len(terms) < len(guards) - 1:
            terms.insert(0, e.rhs)
            e = e.lhs
        terms.insert(0, e)
        ok = len(terms) == len(guards)
        for t, (pol, g) in zip(terms, guards):
            if pol == "pos":
                ok = ok and t is g
            else:
                ok = ok and isinstance(t, ExprUnaryModel) and t.expr is g
        c.prove("the guard is exactly the conjunction of the enclosing conditions (else branches negated)", ok)


# ---- C01-S: rand-set formation ----------------------------------------------------------------------------------------
def rs_cases(tier, seed):
    fields = ["a", "b", "c", "n", "l0", "l1"]        # l0 / l1: elements of a random list referenced by literal subscript
    stmts = [(x,) for x in fields] + [(x, y) for x in fields for y in fields if x != y]
    seqs = []
    for k in (1, 2, 3):
        for sq in itertools.product(range(len(stmts)), repeat=k):
            seqs.append([stmts[i] for i in sq])
    if tier != "thorough":
        import random
        r = random.Random(seed)
        three = [s for s in seqs if len(s) == 3]
        seqs = [s for s in seqs if len(s) < 3] + r.sample(three, 700)
    else:
        import random
        r = random.Random(seed)
        for _ in range(1500):
            seqs.append([stmts[r.randrange(len(stmts))] for _ in range(4)])
    return [(seqs[i:i + 60],) for i in range(0, len(seqs), 60)]


@contract("rand_info_builder.rand_sets", ["C01", "C02", "C03"],
          ["vsc.model.rand_info_builder.RandInfoBuilder.build", "vsc.model.rand_info_builder.RandInfoBuilder.process_fieldref",
           "vsc.model.rand_info_builder.RandInfoBuilder.visit_constraint_stmt_enter",
           "vsc.model.rand_info_builder.RandInfoBuilder.visit_constraint_stmt_leave", "vsc.model.rand_set.RandSet.add_field",
           "vsc.model.rand_info_builder.RandInfoBuilder.visit_expr_array_subscript",
           "vsc.model.rand_set.RandSet.add_constraint", "vsc.model.rand_set_node_builder.RandSetNodeBuilder.build"],
          rs_cases, kind="bounded", replay="none",
          bound="statement sequences over 3 random fields, 1 non-random field and 2 list elements referenced by literal subscript (hard, or the first one soft): every sequence of 1..2 statements, 700 seeded "
                "sequences of 3 (thorough: all 4096 of length 3 plus 1500 of length 4); a statement mentions one field or an ordered "
                "pair of fields (operand order matters for set merging); no values involved")
def c_rand_sets(c, seqs):
    from vsc.model.field_composite_model import FieldCompositeModel
    from vsc.model.field_scalar_model import FieldScalarModel
    from vsc.model.constraint_block_model import ConstraintBlockModel
    from vsc.model.constraint_expr_model import ConstraintExprModel
    from vsc.model.expr_bin_model import ExprBinModel
    from vsc.model.expr_fieldref_model import ExprFieldRefModel
    from vsc.model.expr_literal_model import ExprLiteralModel
    from vsc.model.bin_expr_type import BinExprType
    from vsc.model.rand_info_builder import RandInfoBuilder
    from vsc.model.rand_set_node_builder import RandSetNodeBuilder
    from vsc.model.field_array_model import FieldArrayModel
    from vsc.model.expr_array_subscript_model import ExprArraySubscriptModel
    from vsc.model.constraint_soft_model import ConstraintSoftModel
    from pyvc.ghost_btor import GhostBoolector
    for seq in seqs:
        root = FieldCompositeModel("o", True)
        F = {}
        for nm in ("a", "b", "c"):
            F[nm] = root.add_field(FieldScalarModel(nm, 4, False, True))
        F["n"] = root.add_field(FieldScalarModel("n", 4, False, False))

        class T:
            width = 4
        arr = root.add_field(FieldArrayModel("l", T(), True, None, 4, False, True, False))
        F["l0"], F["l1"] = arr.add_field(), arr.add_field()

        def ref(nm):
            if nm in ("l0", "l1"):
                return ExprArraySubscriptModel(ExprFieldRefModel(arr), ExprLiteralModel(int(nm[1]), False, 32))
            return ExprFieldRefModel(F[nm])
        sts = []
        soft_first = len(seq) >= 2 and (len(seq[0]) + len(seq[-1])) % 2 == 0      # about half the sequences start with a soft
        for k, refs in enumerate(seq):
            if len(refs) == 1:
                e = ExprBinModel(ref(refs[0]), BinExprType.Lt, ExprLiteralModel(9, False, 4))
            else:
                e = ExprBinModel(ref(refs[0]), BinExprType.Le, ref(refs[1]))
            sts.append(ConstraintSoftModel(e) if (k == 0 and soft_first) else ConstraintExprModel(e))
        root.add_constraint(ConstraintBlockModel("c", sts))
        root.set_used_rand(True, 0)
        tag = repr(seq)
        try:
            ri = RandInfoBuilder.build([root], [], None)
        except Exception as e:
            c.check("rand-set formation raises nothing", False, info="%s %s: %s" % (tag, type(e).__name__, e))
            continue
        sets = ri.randsets()

        def holds(rs, st):
            return any(x is st for x in rs.constraints()) or any(x is st for x in rs.soft_constraints())
        ok1 = all(sum(1 for rs in sets if holds(rs, st)) == 1 for st in sts)
        c.check("every top-level statement (hard or soft) is in exactly one rand set", ok1, info=tag)
        ok2 = True
        for st, refs in zip(sts, seq):
            for rs in sets:
                if holds(rs, st):
                    ok2 = ok2 and all(F[r] in rs.all_fields() for r in refs)
        c.check("that set contains every field the statement mentions (random or not)", ok2, info=tag)
        allf = [f for rs in sets for f in rs.all_fields()]
        c.check("no field belongs to two rand sets", len(allf) == len(set(allf)), info=tag)
        mentioned = {F[r] for refs in seq for r in refs}
        c.check("fields no statement mentions are unconstrained, exactly once; mentioned fields are not",
                sorted(f.name for f in ri.unconstrained() if f is not arr.size) == sorted(f.name for f in F.values() if f not in mentioned), info=tag)
        c.check("only used-random fields are solve targets", all(f.is_used_rand for rs in sets for f in rs.rand_fields())
                and all((f in rs.rand_fields()) == f.is_used_rand for rs in sets for f in rs.all_fields()), info=tag)
        # every field of a set is built before any constraint of it is (RandSetNodeBuilder)
        bt = GhostBoolector()                    # one solver instance per call, as in Randomizer.randomize
        for rs in sets:
            RandSetNodeBuilder(bt).build(rs)
            c.check("every field of a rand set has its solver node after the node builder ran", all(f.var is not None for f in rs.all_fields()),
                    info=tag)
        for f in F.values():
            f.dispose()


# ---- C08 / C07: which blocks are collected ----------------------------------------------------------------------------------
@contract("rand_info_builder.composite_blocks", ["C08", "C07", "C03"],
          ["vsc.model.rand_info_builder.RandInfoBuilder.visit_composite_field", "vsc.model.rand_info_builder.RandInfoBuilder.visit_constraint_block",
           "vsc.model.field_composite_model.FieldCompositeModel.set_used_rand"],
          lambda tier, seed: [(a, b, c_, order) for a in (False, True) for b in (False, True) for c_ in (False, True)
                              for order in ("nested_first", "nested_last", "nested_list")], replay="none",
          note="object trees root -> sub -> nested (composite or list of composites), every combination of declared-random flags, "
               "nested composite before / after the scalar fields")
def c_composite_blocks(c, sub_rand, nested_rand, sib_rand, order):
    from vsc.model.field_composite_model import FieldCompositeModel
    from vsc.model.field_array_model import FieldArrayModel
    from vsc.model.field_scalar_model import FieldScalarModel
    from vsc.model.constraint_block_model import ConstraintBlockModel
    from vsc.model.constraint_expr_model import ConstraintExprModel
    from vsc.model.expr_bin_model import ExprBinModel
    from vsc.model.expr_fieldref_model import ExprFieldRefModel
    from vsc.model.expr_literal_model import ExprLiteralModel
    from vsc.model.bin_expr_type import BinExprType
    from vsc.model.rand_info_builder import RandInfoBuilder

    def comp(name, is_rand):
        o = FieldCompositeModel(name, is_rand)
        f = FieldScalarModel(name + ".x", 8, False, True)
        st = ConstraintExprModel(ExprBinModel(ExprFieldRefModel(f), BinExprType.Lt, ExprLiteralModel(9, False, 8)))
        o._x, o._st = f, st
        return o
    root = comp("root", True)
    sub = comp("sub", sub_rand)
    nested = comp("nested", nested_rand)
    sib = comp("sib", sib_rand)
    holder = nested
    if order == "nested_list":
        holder = FieldArrayModel("nl", None, False, None, -1, -1, nested_rand, False)
        holder.append(nested)
    if order == "nested_last":
        sub.add_field(sub._x)
        sub.add_field(holder)
    else:
        sub.add_field(holder)
        sub.add_field(sub._x)
    nested.add_field(nested._x)
    sib.add_field(sib._x)
    root.add_field(root._x)
    root.add_field(sub)
    root.add_field(sib)
    for o in (root, sub, nested, sib):
        o.add_constraint(ConstraintBlockModel("c", [o._st]))
    root.set_used_rand(True, 0)
    ri = RandInfoBuilder.build([root], [], None)
    got = {id(x) for rs in ri.randsets() for x in rs.constraints()}
    for o in (root, sub, nested, sib):
        c.check("a composite's own blocks are collected exactly when that composite is random in the call",
                (id(o._st) in got) == bool(o.is_used_rand), info="%s used_rand=%s collected=%s" % (o.name, o.is_used_rand, id(o._st) in got))
    c.check("used-random status propagates down only through declared-random composites",
            bool(sub.is_used_rand) == sub_rand and bool(nested.is_used_rand) == (sub_rand and nested_rand) and bool(sib.is_used_rand) == sib_rand)


# ---- C20: ordering with lists on either side ---------------------------------------------------------------------------------
@contract("rand_info_builder.ordering_lists", ["C20"],
          ["vsc.visitors.expand_solve_order_visitor.ExpandSolveOrderVisitor.expand",
           "vsc.visitors.expand_solve_order_visitor.ExpandSolveOrderVisitor.visit_scalar_field",
           "vsc.model.rand_info_builder.RandInfoBuilder.visit_constraint_solve_order", "vsc.model.rand_info_builder.RandInfoBuilder.build"],
          lambda tier, seed: [(k, n) for k in ("scalar_list", "list_scalar", "list_list", "pylist_list", "chain") for n in (1, 2, 3)],
          replay="none", note="solve_order with a vsc list (1..3 elements) on the earlier and/or the later side, Python lists of fields, chains")
def c_ordering_lists(c, kind, n):
    from vsc.model.field_composite_model import FieldCompositeModel
    from vsc.model.field_scalar_model import FieldScalarModel
    from vsc.model.field_array_model import FieldArrayModel
    from vsc.model.constraint_block_model import ConstraintBlockModel
    from vsc.model.constraint_expr_model import ConstraintExprModel
    from vsc.model.constraint_solve_order_model import ConstraintSolveOrderModel
    from vsc.model.expr_bin_model import ExprBinModel
    from vsc.model.expr_fieldref_model import ExprFieldRefModel
    from vsc.model.bin_expr_type import BinExprType
    from vsc.model.rand_info_builder import RandInfoBuilder
    from vsc.visitors.expand_solve_order_visitor import ExpandSolveOrderVisitor

    class T:
        width = 4
    root = FieldCompositeModel("o", True)
    a = root.add_field(FieldScalarModel("a", 4, False, True))
    b = root.add_field(FieldScalarModel("b", 4, False, True))
    l1 = root.add_field(FieldArrayModel("l1", T(), True, None, 4, False, True, False))
    l2 = root.add_field(FieldArrayModel("l2", T(), True, None, 4, False, True, False))
    for _ in range(n):
        l1.add_field()
        l2.add_field()
    root.set_used_rand(True, 0)
    allf = [a, b] + l1.field_l + l2.field_l
    e = ExprFieldRefModel(allf[0])
    for f in allf[1:]:
        e = ExprBinModel(e, BinExprType.Add, ExprFieldRefModel(f))
    link = ConstraintExprModel(ExprBinModel(e, BinExprType.Lt, ExprFieldRefModel(a)))
    if kind == "scalar_list":
        dirs = [([a], [l1])]
    elif kind == "list_scalar":
        dirs = [([l1], [a])]
    elif kind == "list_list":
        dirs = [([l1], [l2])]
    elif kind == "pylist_list":
        dirs = [([a, b], [l1])]
    else:
        dirs = [([a], [l1]), ([l1], [b])]
    root.add_constraint(ConstraintBlockModel("c", [link] + [ConstraintSolveOrderModel(x, y) for x, y in dirs]))

    def scalars(m):
        return list(m.field_l) if isinstance(m, FieldArrayModel) else [m]
    # the dependency map: every scalar of `after` records every scalar of `before`
    om = {}
    for before, after in dirs:
        for bm in before:
            for am in after:
                ExpandSolveOrderVisitor(om).expand(am, bm)
    ok = True
    for before, after in dirs:
        for bm in before:
            for am in after:
                for x in scalars(am):
                    ok = ok and x in om and all(y in om[x] for y in scalars(bm))
    c.check("every field of the later argument records every field of the earlier argument as a dependency (lists give the full product)",
            ok, info=repr({k.name: sorted(v.name for v in vs) for k, vs in om.items()}))
    ri = RandInfoBuilder.build([root], [], None)
    rs = ri.randsets()[0]
    groups = rs.rand_order_l
    c.check("ordering directives with lists produce ordered groups", isinstance(groups, list) and len(groups) >= 2, info=repr(groups))
    if isinstance(groups, list):
        pos = {}
        for gi, g in enumerate(groups):
            for f in g:
                pos[f] = gi
        ok = True
        for before, after in dirs:
            for bm in before:
                for am in after:
                    for y in scalars(bm):
                        for x in scalars(am):
                            ok = ok and y in pos and x in pos and pos[y] < pos[x]
        c.check("the group of every earlier field precedes the group of every later field (list elements included)", ok,
                info=repr([[f.name for f in g] for g in groups]))
