"""Bounded stand-ins (public API, real Boolector) for the call-lifecycle properties C16 / C06 / C17 / C03:
fault positions x small object family; after each failure the shared construction state must be idle and the object must
behave like a pristine twin given the same random state."""
import itertools
from pyvc.contract import contract, library_only


def _depths():
    import vsc.impl.ctor as ctor
    import vsc.impl.expr_mode as em
    return {"constraint_scope_stack": len(ctor.constraint_scope_stack), "expr_l": len(ctor.expr_l),
            "srcinfo_mode_s": len(ctor.srcinfo_mode_s), "_expr_mode": len(em._expr_mode), "_raw_mode": len(em._raw_mode)}


def _reset():
    import vsc.impl.ctor as ctor
    import vsc.impl.expr_mode as em
    ctor.constraint_scope_stack.clear()
    ctor.expr_l.clear()
    ctor.srcinfo_mode_s.clear()
    em._expr_mode.clear()
    em._raw_mode.clear()


class Boom(Exception):
    pass


def mk_class(vsc, fault, with_list=False, srcinfo=False):
    """fault in {None,'init','constraint','constraint_nested','pre','post'}: where user code raises (armed by .arm)"""
    state = {"armed": False}

    def deco(T):
        return vsc.randobj(srcinfo=True)(T) if srcinfo else vsc.randobj(T)

    @deco
    class C(object):
        def __init__(self):
            self.a = vsc.rand_bit_t(4)
            self.b = vsc.rand_bit_t(4)
            self.n = vsc.bit_t(4)
            self.p = vsc.rand_bit_t(4)          # an independent constrained group (its own rand set)
            self.q = vsc.rand_bit_t(4)
            if with_list:
                self.l = vsc.rand_list_t(vsc.bit_t(4), 3)
            if fault == "init" and state["armed"]:
                raise Boom()

        @vsc.constraint
        def ab(self):
            self.a < self.b
            self.p < self.q
            if fault == "constraint" and state["armed"]:
                raise Boom()
            with vsc.if_then(self.a == 1):
                self.b == 9
                if fault == "constraint_nested" and state["armed"]:
                    raise Boom()
            if with_list:
                self.l.sum == self.a + 5

        def pre_randomize(self):
            if fault == "pre" and state["armed"]:
                raise Boom()

        def post_randomize(self):
            if fault == "post" and state["armed"]:
                raise Boom()
    return C, state


def draw(o, vsc, n=3, inline=None):
    out = []
    for i in range(n):
        if inline is None:
            o.randomize()
        else:
            with o.randomize_with() as it:
                inline(it)
        out.append((int(o.a), int(o.b), int(o.p), int(o.q)) + ((tuple(o.l),) if hasattr(o, "l") else ()))
    return out


@contract("api_lifecycle.fault_positions", ["C16", "C06", "C17"],
          ["vsc.rand_obj._randobj.__call__", "vsc.methods.randomize_with", "vsc.model.randomizer.Randomizer.do_randomize",
           "vsc.model.randomizer.Randomizer.randomize", "vsc.model.field_array_model.FieldArrayModel.build_sum_expr"],
          lambda tier, seed: [(f, l, s) for f in ("init", "constraint", "constraint_nested", "pre", "post", "with_body", "unsat",
                                                 "unsat_inline", "unsat_dbg", "unsat_inline_dbg") for l in (False, True) for s in (False, True)],
          kind="bounded",
          bound="10 fault positions (two with solve_fail_debug=1); two independent constraint groups; (user __init__, constraint body, nested constraint body, pre_randomize, post_randomize, "
                "randomize_with body, unsatisfiable class constraints via a non-random field, unsatisfiable inline constraint) x "
                "{with/without a summed list} x {srcinfo on/off}; twin comparison over 3 draws with equal random state")
def c_fault_positions(c, fault, with_list, srcinfo):
    import vsc
    from vsc.model.rand_state import RandState
    from vsc.model.solve_failure import SolveFailure
    _reset()
    C, st = mk_class(vsc, fault, with_list, srcinfo)
    before = _depths()
    o = None
    raised = None
    if fault in ("init", "constraint", "constraint_nested"):
        st["armed"] = True
        try:
            C()
        except Boom as e:
            raised = e
        st["armed"] = False
        c.check("the user's exception propagates out of construction", raised is not None)
        c.check("after an aborted construction every shared construction stack is back at its entry depth", _depths() == before,
                info="before %r after %r" % (before, _depths()))
        _reset()
        o = C()
    else:
        o = C()
        o.set_randstate(RandState.mkFromSeed(7))
        o.randomize()
        st["armed"] = True
        try:
            if fault == "with_body":
                with o.randomize_with() as it:
                    it.a < 8
                    raise Boom()
            elif fault in ("unsat", "unsat_dbg"):
                o.n = 5
                with o.randomize_with(solve_fail_debug=1 if fault.endswith("dbg") else 0) as it:
                    it.a == it.n
                    it.b == it.n
            elif fault in ("unsat_inline", "unsat_inline_dbg"):
                with o.randomize_with(solve_fail_debug=1 if fault.endswith("dbg") else 0) as it:
                    it.a > it.b
            else:
                o.randomize()
        except (Boom, SolveFailure) as e:
            raised = e
        st["armed"] = False
        c.check("the failure reaches the caller as the user's exception / SolveFailure", raised is not None,
                info=repr(raised))
        c.check("after a failed call every shared construction stack is back at its entry depth", _depths() == before,
                info="before %r after %r" % (before, _depths()))
        _reset()
    # twin comparison: same class, never failed, same random state
    C2, _ = mk_class(vsc, None, with_list, srcinfo)
    t = C2()
    o.set_randstate(RandState.mkFromSeed(11))
    t.set_randstate(RandState.mkFromSeed(11))
    try:
        got = draw(o, vsc)
        exp = draw(t, vsc)
        c.check("after the failure the object behaves like a pristine twin with the same random state (class constraints)",
                got == exp, info="got %r twin %r" % (got, exp))
        got = draw(o, vsc, inline=lambda it: it.a > 2)
        exp = draw(t, vsc, inline=lambda it: it.a > 2)
        c.check("... and with an inline constraint", got == exp, info="got %r twin %r" % (got, exp))
        ok = all(x[0] < x[1] and (x[0] != 1 or x[1] == 9) and x[2] < x[3] for x in got)
        c.check("later calls still enforce exactly the class constraints (no leftover temporary constraint)", ok, info=repr(got))
    except Exception as e:
        library_only(e)
        c.check("later calls on the object raise nothing", False, info="%s: %s" % (type(e).__name__, e))
    c.check("the stacks are idle after normal use", _depths() == before)
    _reset()
