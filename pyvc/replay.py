"""Native replay of a counter-model: the same contract body is run on the *untouched* code (plain import of
/repo/src, real builtins) with every symbolic input replaced by its value in the verifier's model.
Prints `REPLAY: REPRODUCED` when the named obligation is false (or the unexpected exception is raised)
on the real code, `REPLAY: NOT-REPRODUCED` otherwise."""
import sys
import os
import json
import traceback

ROOT = os.path.dirname(os.path.dirname(os.path.abspath(__file__)))
sys.path.insert(0, ROOT)
sys.path.insert(0, os.environ.get("PYVC_REPO_SRC", "/repo/src"))
sys.dont_write_bytecode = True

import z3
from pyvc import sym


class ConcCtx(sym.Ctx):
    def __init__(self, model, decisions=None):
        super().__init__([])
        self.model = model or {}
        self.failed = []
        self.checked = []
        self.dec = list(decisions or [])
        self.dpos = 0

    def _val(self, nm, lo, hi, default=0):
        v = self.model.get(nm)
        if v is None or isinstance(v, str) and not v.lstrip("-").isdigit():
            v = default
            if lo is not None and v < lo:
                v = lo
            if hi is not None and v > hi:
                v = hi
        return int(v)

    def fresh_int(self, name=None, lo=None, hi=None):
        n = self.names.get(name, 0)
        self.names[name] = n + 1
        return self._val("%s#%d" % (name or "i", n), lo, hi)

    def fresh_bool(self, name=None):
        n = self.names.get(name, 0)
        self.names[name] = n + 1
        v = self.model.get("%s#%d" % (name or "b", n))
        return bool(v) if not isinstance(v, str) else v == "True"

    def assume_z3(self, c):
        pass

    def assume(self, c):
        pass

    def decide(self, c):
        c = z3.simplify(c)
        if z3.is_true(c):
            return True
        if z3.is_false(c):
            return False
        raise RuntimeError("replay: non-concrete decision %s" % c)

    def concretize(self, x, limit=64):
        if isinstance(x, sym.SymInt):
            return z3.simplify(x.z).as_long()
        return x

    def prove(self, name, cond, info=None, assume=True):
        c = z3.simplify(sym.tobool(cond))
        ok = z3.is_true(c)
        if not ok and not z3.is_false(c):
            raise RuntimeError("replay: obligation %s not concrete: %s" % (name, c))
        self.checked.append((name, ok))
        if not ok:
            self.failed.append(name)

    def check(self, name, cond, info=None):
        self.prove(name, cond, info)

    def fail(self, name, info=None):
        self.failed.append(name)
        self.checked.append((name, False))
        self.info = info

    def cover(self, name):
        pass

    def summarize(self, fn):
        return fn()


def main():
    rp = json.load(open(sys.argv[1]))
    if rp.get("api"):
        from pyvc import api_replay
        try:
            rep = api_replay.replay(rp["api"])
        except Exception as e:
            print("  public-API replay raised %s: %s\n%s" % (type(e).__name__, e, traceback.format_exc(limit=-4)))
            rep = bool(rp["api"].get("expect_exception"))
        print("REPLAY: REPRODUCED" if rep else "REPLAY: NOT-REPRODUCED")
        return 0
    from pyvc.driver import load_contracts
    reg = load_contracts()
    c = reg[rp["contract"]]
    cx = ConcCtx(rp.get("model") or {}, rp.get("decisions"))
    sym.Ctx.cur = cx
    exc = None
    try:
        c.body(cx, *rp["params"])
    except Exception as e:
        exc = e
        tb = traceback.format_exc(limit=-5)
    want = rp["obligation"]
    print("contract %s params=%s model=%s" % (rp["contract"], rp["params"], rp.get("model")))
    for nm, ok in cx.checked:
        print("  obligation %-50s %s" % (nm, "holds" if ok else "FALSE on the real code"))
    if exc is not None:
        print("  real code raised %s: %s\n%s" % (type(exc).__name__, exc, tb))
    if want == "raises-only":
        rep = exc is not None
    else:
        rep = want in cx.failed
    print("REPLAY: REPRODUCED" if rep else "REPLAY: NOT-REPRODUCED")
    return 0


if __name__ == "__main__":
    import gc
    gc.disable()
    main()
    sys.stdout.flush()
    sys.stderr.flush()
    os._exit(0)      # pyboolector can segfault in interpreter teardown (node freed after its solver)
