"""Contract registry.  A contract is a sidecar specification of one or more real functions of
/repo/src/vsc: the body builds symbolic inputs (ctx.fresh_*), calls the *real* function and states its
postconditions with ctx.prove(name, cond).  The driver explores every path of the real code for every
parameter tuple and discharges each obligation with z3.
"""

REG = {}


class Contract:
    def __init__(self, name, props, fns, params, body, kind="proof", bound=None, replay="concrete",
                 max_paths=20000, timeout_ms=20000, note=None, stubs=(), backend="int", api=None):
        self.api = api
        self.backend = backend
        self.name = name
        self.props = list(props)
        self.fns = list(fns)
        self.params = params
        self.body = body
        self.kind = kind            # 'proof' | 'bounded'
        self.bound = bound          # text, for bounded contracts
        self.replay = replay        # 'concrete' | 'none' | 'api'
        self.max_paths = max_paths
        self.timeout_ms = timeout_ms
        self.note = note
        self.stubs = list(stubs)    # dotted names of callees replaced by contract stubs
        self.module = body.__module__


def contract(name, props, fns, params, **kw):
    def deco(f):
        assert name not in REG, "duplicate contract " + name
        REG[name] = Contract(name, props, fns, params, f, **kw)
        return f
    return deco


# ---- parameter-space helpers ------------------------------------------------------------------------
QUICK_WIDTHS = [1, 2, 7, 8, 9, 31, 32, 33, 63, 64]


def widths(tier, seed=0, quick=None):
    if tier == "thorough":
        return list(range(1, 65))
    import random
    r = random.Random(seed)
    w = list(quick or QUICK_WIDTHS)
    for _ in range(2):
        x = r.randint(1, 64)
        if x not in w:
            w.append(x)
    return sorted(w)


def from_library(e):
    """True when exception `e` was raised inside the repository (a frame of the repository below the last /verif frame).
    Families that turn 'the library raised' into a failed obligation call this first, so that a bug of the harness itself
    (NameError, wrong helper call, ...) is never reported - or recorded - as a defect of the library."""
    import os
    import traceback
    root = os.path.dirname(os.path.dirname(os.path.abspath(__file__)))
    repo = os.environ.get("PYVC_REPO_SRC", "/repo/src")
    frames = [f.filename for f in traceback.extract_tb(e.__traceback__)]
    last_verif = max([i for i, fn in enumerate(frames) if fn.startswith(root)] or [-1])
    return any(fn.startswith(repo) for fn in frames[last_verif + 1:])


def library_only(e):
    """re-raise `e` unless it came out of the library"""
    if not from_library(e):
        raise e
