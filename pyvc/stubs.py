"""Contract stubs: a callee with its own contract is replaced, in the caller's run, by an object that
checks the callee's precondition, havocs its frame and assumes its postcondition."""


class StubFailure(Exception):
    pass
