"""Replays of lowering counter-models through pyvsc's public API with the *real* Boolector (native import).
Also used as the differential cross-check of the ghost Boolector / R-EXPR against the installed solver."""
import sys
import os

sys.path.insert(0, os.environ.get("PYVC_REPO_SRC", "/repo/src"))


def pat(v, w):
    return v % (1 << w)


def sx(p, w_from, w_to, signed):
    """extend the w_from-bit pattern p to w_to bits"""
    if w_to <= w_from:
        return p
    if signed and (p >> (w_from - 1)) & 1:
        return p | (((1 << (w_to - w_from)) - 1) << w_from)
    return p


def to_signed(p, w):
    return p - (1 << w) if (p >> (w - 1)) & 1 else p


REL = ("Eq", "Ne", "Gt", "Ge", "Lt", "Le")


def ref_bin_value(op, lw, rw, ls, rs, lv, rv, cw=-1):
    """R-EXPR of (l op r) on concrete operand patterns; returns the result pattern (1 bit for comparisons)"""
    W = max(lw, rw, cw)
    sgn = ls and rs
    l = sx(pat(lv, lw), lw, W, sgn)
    r = sx(pat(rv, rw), rw, W, sgn)
    M = (1 << W) - 1
    if sgn:
        li, ri = to_signed(l, W), to_signed(r, W)
    else:
        li, ri = l, r
    if op == "Add":
        return (l + r) & M
    if op == "Sub":
        return (l - r) & M
    if op == "Mul":
        return (l * r) & M
    if op == "Div":
        if r == 0:
            return M if (not sgn or li >= 0) else 1          # SMT-LIB bvudiv/bvsdiv by zero
        if sgn:
            q = abs(li) // abs(ri)
            return (q if (li < 0) == (ri < 0) else -q) & M
        return (l // r) & M
    if op == "Mod":
        if r == 0:
            return l
        if sgn:
            m = abs(li) % abs(ri)
            return (m if li >= 0 else -m) & M
        return (l % r) & M
    if op == "And":
        return l & r
    if op == "Or":
        return l | r
    if op == "Xor":
        return l ^ r
    if op == "Sll":
        return (l << r) & M if r < W else 0
    if op == "Srl":
        return (l >> r) if r < W else 0
    return int({"Eq": li == ri, "Ne": li != ri, "Gt": li > ri, "Ge": li >= ri, "Lt": li < ri, "Le": li <= ri}[op])


PYOP = {"Add": "+", "Sub": "-", "Mul": "*", "Div": "/", "Mod": "%", "And": "&", "Or": "|", "Xor": "^", "Sll": "<<",
        "Srl": ">>", "Eq": "==", "Ne": "!=", "Gt": ">", "Ge": ">=", "Lt": "<", "Le": "<="}


def run_bin(op, lw, rw, ls, rs, lv, rv):
    """builds `res == (a op b)` with a, b non-random fields holding lv, rv; returns (solver result pattern, reference)"""
    import vsc
    W = 1 if op in REL else max(lw, rw)

    la = to_signed(pat(lv, lw), lw) if ls else pat(lv, lw)
    lb = to_signed(pat(rv, rw), rw) if rs else pat(rv, rw)

    @vsc.randobj
    class C(object):
        def __init__(self):
            self.a = vsc.rand_int_t(lw) if ls else vsc.rand_bit_t(lw)
            self.b = vsc.rand_int_t(rw) if rs else vsc.rand_bit_t(rw)
            self.res = vsc.rand_bit_t(W)

        @vsc.constraint
        def c(self):
            self.a == la
            self.b == lb
            self.res == eval("self.a %s self.b" % PYOP[op])
    o = C()
    o.randomize()
    if int(o.a) != la or int(o.b) != lb:
        raise AssertionError("operands not pinned: a=%s b=%s" % (o.a, o.b))
    got = int(o.res)
    return pat(got, W), ref_bin_value(op, lw, rw, ls, rs, lv, rv, W)


def replay(api):
    if api["kind"] == "bin":
        got, want = run_bin(api["op"], api["lw"], api["rw"], api["ls"], api["rs"], api["lv"], api["rv"])
        print("  public API, real Boolector: res == (a %s b) with a=%d (%s%d) b=%d (%s%d): solver gives %d, R-EXPR says %d" % (
            PYOP[api["op"]], api["lv"], "int" if api["ls"] else "bit", api["lw"], api["rv"], "int" if api["rs"] else "bit",
            api["rw"], got, want))
        return got != want
    if api["kind"] == "script":
        g = {}
        exec(api["code"], g)
        return bool(g["violated"]())
    raise ValueError(api["kind"])
