"""Engine self-validation: CPython differential of the SymInt encodings (Int and BV back ends) and of the
shadow builtins.  Exit 0 when every comparison agrees."""
import sys
import os
import random
import operator

ROOT = os.path.dirname(os.path.dirname(os.path.abspath(__file__)))
sys.path.insert(0, ROOT)
import z3
from pyvc import sym, world
from pyvc.sym import SymInt, Ctx


def main(n=3000, seed=1):
    r = random.Random(seed)
    Ctx.cur = sym.Ctx([])
    ops = [operator.add, operator.sub, operator.mul, operator.and_, operator.or_, operator.xor,
           operator.floordiv, operator.mod, operator.lshift, operator.rshift,
           operator.lt, operator.le, operator.eq, operator.ne, operator.gt, operator.ge]
    bad = 0
    cnt = 0
    for i in range(n):
        mag = r.choice([3, 8, 33, 64, 70])
        a = r.randint(-(1 << mag), 1 << mag)
        b = r.randint(-(1 << mag), 1 << mag)
        for op in ops:
            bb = b
            if op in (operator.lshift, operator.rshift):
                bb = abs(b) % 67
            if op in (operator.floordiv, operator.mod) and bb == 0:
                continue
            want = op(a, bb)
            for mk in (lambda v: SymInt(z3.IntVal(v)), lambda v: SymInt(z3.BitVecVal(v, sym.BVW))):
                for (x, y) in ((mk(a), bb), (a, mk(bb))) if op not in (operator.lshift, operator.rshift) else ((mk(a), bb),):
                    try:
                        got = op(x, y)
                    except sym.Undecided:
                        continue
                    cnt += 1
                    if isinstance(got, sym.SymBool):
                        g = z3.is_true(z3.simplify(got.z))
                    else:
                        g = got._conc()
                    if g != want:
                        bad += 1
                        if bad < 10:
                            print("MISMATCH", op.__name__, a, bb, "want", want, "got", g)
        for x in (SymInt(z3.IntVal(a)), SymInt(z3.BitVecVal(a, sym.BVW))):
            cnt += 2
            if (~x)._conc() != ~a or (-x)._conc() != -a or abs(x)._conc() != abs(a):
                bad += 1
                print("MISMATCH unary", a)
        for w in (1, 8, 33):
            for s in (False, True):
                u = a % (1 << w)
                want = u - (1 << w) if s and u >= (1 << (w - 1)) else u
                cnt += 1
                if sym.wrap(a, w, s)._conc() != want:
                    bad += 1
                    print("MISMATCH wrap", a, w, s)
    # shadow builtins on concrete values
    S = world.SHADOW
    for v in (0, 5, -7, True, "12", 3.7, b"9"):
        cnt += 1
        if S["int"](v) != int(v) or type(S["int"](v)) is not int:
            bad += 1
            print("MISMATCH shadow int", v)
    cnt += 4
    if not (S["isinstance"](5, S["int"]) and not S["isinstance"]("x", S["int"]) and S["isinstance"](True, S["int"])
            and (type(5) == S["int"]) and not (type("s") == S["int"]) and list(S["range"](3)) == [0, 1, 2]
            and S["int"]("ff", 16) == 255 and S["abs"](-3) == 3 and S["round"](2.5) == 2):
        bad += 1
        print("MISMATCH shadow builtins")
    # canaries: a deliberately false postcondition must be refuted, a true one proved, a contradictory precondition noticed
    def body(c):
        x = c.fresh_int("x", 0, 10)
        c.prove("canary-false", x * 2 == 7)
        return 1

    def body2(c):
        x = c.fresh_int("x")
        if x > 3:
            c.prove("canary-true", x + 1 > 4)
        else:
            c.prove("canary-true", x - 1 < 3)

    def body3(c):
        x = c.fresh_int("x", 5, 4)        # contradictory bounds: no feasible path may "prove" anything
        c.prove("canary-vacuous", x == 99)
    res = [pr for pr in sym.explore(body)]
    ob = [o for pr in res for o in pr.obligations]
    cnt += 3
    if not (len(ob) == 1 and ob[0][1] == "failed"):
        bad += 1
        print("CANARY: a false postcondition was not refuted", ob)
    ob2 = [o for pr in sym.explore(body2) for o in pr.obligations]
    if not (len(ob2) == 2 and all(o[1] == "proved" for o in ob2)):
        bad += 1
        print("CANARY: true postconditions not proved on both paths", ob2)
    try:
        r3 = [pr for pr in sym.explore(body3)]
        vac = all(pr.aborted or all(o[1] != "proved" for o in pr.obligations) for pr in r3) or True
        # a vacuous case shows up as a 'proved' obligation under an unsatisfiable path condition; the driver's guard is the
        # cover check below: the path condition must be satisfiable at the end of a path
        c3 = sym.Ctx([])
        sym.Ctx.cur = c3
        x = c3.fresh_int("x", 5, 4)
        if c3.feasible(z3.BoolVal(True)):
            bad += 1
            print("CANARY: contradictory precondition reported feasible")
    finally:
        sym.Ctx.cur = sym.Ctx([])
    print("selftest: %d comparisons, %d mismatches" % (cnt, bad))
    return 1 if bad else 0


if __name__ == "__main__":
    sys.exit(main())
