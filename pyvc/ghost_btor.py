"""Ghost model of pyboolector.Boolector (assumed contract on the dependency, see DESIGN 2.4).

Term API: a node is Node(width, z3 BitVec term, owner).  Every operator is the SMT-LIB QF_BV operator of the same
name; the preconditions are the ones observed on the installed pyboolector 3.2.4 (probe in DESIGN): exact arity,
equal operand widths, shift amount width equal or log2, Const(v,w) raises when v.bit_length() > w and silently wraps
negative v, Assume/Assert need width 1, Slice needs lower <= upper < width, Cond needs a 1-bit condition, Implies needs
1-bit operands, operands must belong to the same instance.  The ghost raises GhostBtorError where the library raises.

Solving protocol: ghost state `asserted`, `assumed`, `model_valid`; Sat() asks `oracle(asserted, assumed)`; the oracle
is supplied by the contract (z3-decided in term mode, an anti-monotone fork in protocol mode).  Assume/Assert clear
model_valid; reading Node.assignment requires model_valid and a preceding SAT answer.
"""
import z3
from .sym import SymInt, SymBool, Ctx, lift
from .world import SymBits


class GhostBtorError(Exception):
    pass


def _conc(v):
    if isinstance(v, SymInt):
        cv = v._conc()
        if cv is None:
            cv = Ctx.cur.concretize(v)
        return cv
    if hasattr(type(v), "__int__") and not isinstance(v, (int, bool)):
        r = type(v).__int__(v)
        return _conc(r)
    return int(v)


class Node:
    __slots__ = ("width", "term", "btor", "tag", "symbol")

    def __init__(self, width, term, btor, tag=None):
        self.width = width
        self.term = term
        self.btor = btor
        self.tag = tag
        self.symbol = None

    @property
    def assignment(self):
        b = self.btor
        b.log.append(("assignment", self))
        if not b.model_valid:
            b.violations.append("model read without a valid SAT model")
            raise GhostBtorError("boolector_bv_assignment: cannot retrieve model if input formula is not SAT")
        return b.model_value(self)

    def __repr__(self):
        return "Node(w=%d,%s)" % (self.width, self.tag or z3.simplify(self.term))


def b1(cond):
    return z3.If(cond, z3.BitVecVal(1, 1), z3.BitVecVal(0, 1))


class GhostBoolector:
    SAT = 10
    UNSAT = 20
    UNKNOWN = 0
    _n = 0

    def __init__(self, oracle=None, name=None):
        GhostBoolector._n += 1
        self.id = GhostBoolector._n
        self.name = name or "btor%d" % self.id
        self.asserted = []
        self.assumed = []
        self.model_valid = False
        self.oracle = oracle
        self.opts = {}
        self.log = []
        self.violations = []
        self.nvars = 0
        self.sat_calls = []          # (frozenset(asserted ids), frozenset(assumed ids), answer)
        self.model_values = {}

    # ---- options
    def Set_opt(self, opt, val):
        if opt is None:
            raise GhostBtorError("Set_opt: invalid option")
        self.opts[opt] = val

    # ---- sorts, leaves
    def BitVecSort(self, w):
        w = _conc(w)
        if w < 1:
            raise GhostBtorError("BitVecSort: width must be > 0")
        return ("bv", w)

    def Var(self, sort, symbol=None):
        self.nvars += 1
        w = sort[1]
        n = Node(w, z3.BitVec("%s.v%d" % (self.name, self.nvars), w), self, tag="var%d" % self.nvars)
        n.symbol = symbol
        return n

    def Const(self, v, w=1):
        w = _conc(w)
        if isinstance(v, str):
            return Node(len(v), z3.BitVecVal(int(v, 2), len(v)), self)
        if isinstance(v, SymBool):
            v = lift(v)
        if isinstance(v, SymInt):
            cv = v._conc()
            if cv is None:
                # symbolic constant: the library precondition v.bit_length() <= w becomes a proof obligation
                c = Ctx.cur
                ok = z3.And(v.z >= -(1 << w), v.z < (1 << w))
                if not c.feasible(ok) or c.feasible(z3.Not(ok)):
                    if c.feasible(z3.Not(ok)):
                        c.assume_z3(z3.Not(ok))
                        raise GhostBtorError("Value of constant (symbolic) exceeds bit width of %d" % w)
                if z3.is_int(v.z):
                    return Node(w, z3.Int2BV(v.z, w), self)
                from . import sym
                return Node(w, z3.Extract(w - 1, 0, v.z) if w <= sym.BVW else z3.SignExt(w - sym.BVW, v.z), self)
            v = cv
        if hasattr(type(v), "__int__") and not isinstance(v, int):
            v = _conc(v)
        v = int(v)
        if v.bit_length() > w:
            raise GhostBtorError("Value of constant %d (bit width %d) exceeds bit width of %d" % (v, v.bit_length(), w))
        return Node(w, z3.BitVecVal(v, w), self)

    # ---- helpers
    def _own(self, *ns):
        for n in ns:
            if not isinstance(n, Node):
                raise TypeError("Argument has incorrect type (expected BoolectorNode, got %s)" % type(n).__name__)
            if n.btor is not self:
                self.violations.append("node of another Boolector instance used")
                raise GhostBtorError("argument belongs to different Boolector instance")

    def _same(self, a, b):
        self._own(a, b)
        if a.width != b.width:
            raise GhostBtorError("Both operands must have the same bit width")

    # ---- bit-vector operators
    def _bin(self, a, b, f):
        self._same(a, b)
        return Node(a.width, f(a.term, b.term), self)

    def _rel(self, a, b, f):
        self._same(a, b)
        return Node(1, b1(f(a.term, b.term)), self)

    def And(self, a, b):
        return self._bin(a, b, lambda x, y: x & y)

    def Or(self, a, b):
        return self._bin(a, b, lambda x, y: x | y)

    def Xor(self, a, b):
        return self._bin(a, b, lambda x, y: x ^ y)

    def Add(self, a, b):
        return self._bin(a, b, lambda x, y: x + y)

    def Sub(self, a, b):
        return self._bin(a, b, lambda x, y: x - y)

    def Mul(self, a, b):
        return self._bin(a, b, lambda x, y: x * y)

    def Udiv(self, a, b):
        return self._bin(a, b, z3.UDiv)

    def Urem(self, a, b):
        return self._bin(a, b, z3.URem)

    def Sdiv(self, a, b):
        return self._bin(a, b, lambda x, y: x / y)

    def Srem(self, a, b):
        return self._bin(a, b, z3.SRem)

    def Smod(self, a, b):
        return self._bin(a, b, lambda x, y: x % y)          # z3py: % on bit-vectors is bvsmod (sign follows the divisor)

    def Nand(self, a, b):
        return self._bin(a, b, lambda x, y: ~(x & y))

    def Nor(self, a, b):
        return self._bin(a, b, lambda x, y: ~(x | y))

    def Xnor(self, a, b):
        return self._bin(a, b, lambda x, y: ~(x ^ y))

    def Iff(self, a, b):
        self._same(a, b)
        if a.width != 1:
            raise GhostBtorError("bit-width of 'e0' must be 1")
        return Node(1, ~(a.term ^ b.term), self)

    def Inc(self, a):
        self._own(a)
        return Node(a.width, a.term + 1, self)

    def Dec(self, a):
        self._own(a)
        return Node(a.width, a.term - 1, self)

    def Redor(self, a):
        self._own(a)
        return Node(1, b1(a.term != 0), self)

    def Redand(self, a):
        self._own(a)
        return Node(1, b1(a.term == z3.BitVecVal(-1, a.width)), self)

    def Concat(self, a, b):
        self._own(a, b)
        return Node(a.width + b.width, z3.Concat(a.term, b.term), self)

    def _shift(self, a, b, f):
        self._own(a, b)
        if a.width == b.width:
            return Node(a.width, f(a.term, b.term), self)
        if (1 << b.width) == a.width:
            return Node(a.width, f(a.term, z3.ZeroExt(a.width - b.width, b.term)), self)
        raise GhostBtorError("bit-width of 'e1' must be equal to log2(bit-width of 'e0')")

    def Sll(self, a, b):
        return self._shift(a, b, lambda x, y: x << y)

    def Srl(self, a, b):
        return self._shift(a, b, z3.LShR)

    def Sra(self, a, b):
        return self._shift(a, b, lambda x, y: x >> y)

    def Not(self, a):
        self._own(a)
        return Node(a.width, ~a.term, self)

    def Neg(self, a):
        self._own(a)
        return Node(a.width, -a.term, self)

    def Eq(self, a, b):
        return self._rel(a, b, lambda x, y: x == y)

    def Ne(self, a, b):
        return self._rel(a, b, lambda x, y: x != y)

    def Ult(self, a, b):
        return self._rel(a, b, z3.ULT)

    def Ulte(self, a, b):
        return self._rel(a, b, z3.ULE)

    def Ugt(self, a, b):
        return self._rel(a, b, z3.UGT)

    def Ugte(self, a, b):
        return self._rel(a, b, z3.UGE)

    def Slt(self, a, b):
        return self._rel(a, b, lambda x, y: x < y)

    def Slte(self, a, b):
        return self._rel(a, b, lambda x, y: x <= y)

    def Sgt(self, a, b):
        return self._rel(a, b, lambda x, y: x > y)

    def Sgte(self, a, b):
        return self._rel(a, b, lambda x, y: x >= y)

    def Uext(self, a, n):
        self._own(a)
        n = _conc(n)
        if n < 0:
            raise OverflowError("can't convert negative value to uint32_t")
        return Node(a.width + n, z3.ZeroExt(n, a.term) if n else a.term, self)

    def Sext(self, a, n):
        self._own(a)
        n = _conc(n)
        if n < 0:
            raise OverflowError("can't convert negative value to uint32_t")
        return Node(a.width + n, z3.SignExt(n, a.term) if n else a.term, self)

    def Slice(self, a, upper, lower):
        self._own(a)
        upper = _conc(upper)
        lower = _conc(lower)
        if upper < 0 or lower < 0:
            raise OverflowError("can't convert negative value to uint32_t")
        if upper >= a.width:
            raise GhostBtorError("boolector_slice: 'upper' must not be >= width of 'exp'")
        if upper < lower:
            raise GhostBtorError("boolector_slice: 'upper' must not be < 'lower'")
        return Node(upper - lower + 1, z3.Extract(upper, lower, a.term), self)

    def Cond(self, c, a, b):
        self._own(c)
        if c.width != 1:
            raise GhostBtorError("boolector_cond: bit-width of 'e_cond' must be equal to 1")
        self._same(a, b)
        return Node(a.width, z3.If(c.term == 1, a.term, b.term), self)

    def Implies(self, a, b):
        self._own(a, b)
        if a.width != 1 or b.width != 1:
            raise GhostBtorError("boolector_implies: bit-width of 'e0' and 'e1' must be 1")
        return Node(1, ~a.term | b.term, self)

    # ---- solving protocol
    def Assume(self, n):
        self._own(n)
        if n.width != 1:
            raise GhostBtorError("Asserted term at position 0 must be of bit width one")
        self.assumed.append(n)
        self.model_valid = False
        self.log.append(("assume", n))

    def Assert(self, n):
        self._own(n)
        if n.width != 1:
            raise GhostBtorError("Asserted term at position 0 must be of bit width one")
        self.asserted.append(n)
        self.model_valid = False
        self.log.append(("assert", n))

    def Sat(self):
        if not self.opts:
            pass
        ans = self.oracle(self, list(self.asserted), list(self.assumed))
        self.sat_calls.append((list(self.asserted), list(self.assumed), ans))
        self.log.append(("sat", ans))
        self.assumed = []            # Boolector drops assumptions after every Sat call
        self.model_valid = bool(ans)
        self.model_values = {}
        return self.SAT if ans else self.UNSAT

    def model_value(self, node):
        """unsigned value of `node` in the current model, as the binary string pyboolector returns (SymBits)"""
        k = id(node)
        ts = z3.simplify(node.term)
        if z3.is_bv_value(ts):
            return SymBits(z3.IntVal(ts.as_long()), node.width)      # a constant node evaluates to itself in every model
        if k not in self.model_values:
            c = Ctx.cur
            v = c.fresh_int("model.%s" % (node.tag or "n"), 0, (1 << node.width) - 1)
            self.model_values[k] = v
        return SymBits(self.model_values[k].z, node.width)

    def __getattr__(self, name):
        import pyboolector as real
        if not name.startswith("_") and hasattr(real.Boolector, name):
            # the real solver has it, the ghost model does not: the checker cannot decide (never a violation, never a pass)
            from .sym import Undecided
            raise Undecided("the ghost Boolector model has no contract for Boolector.%s" % name)
        raise AttributeError("'pyboolector.Boolector' object has no attribute '%s'" % name)


def ghost_pyboolector_module(oracle_factory=None, instances=None):
    """A module object answering exactly the names the *installed* pyboolector answers."""
    import types
    import pyboolector as real
    m = types.ModuleType("pyboolector")

    class _Opt:
        pass
    for n in dir(real):
        if n.startswith("__"):
            continue
        if n == "Boolector":
            def mk(*a, **k):
                b = GhostBoolector(oracle_factory() if oracle_factory else None)
                if instances is not None:
                    instances.append(b)
                return b
            setattr(m, n, mk)
        elif n == "BtorOption":
            o = _Opt()
            for k in dir(real.BtorOption):
                if k.startswith("BTOR_OPT"):
                    setattr(o, k, k)
            setattr(m, n, o)
        elif n == "BoolectorNode":
            setattr(m, n, Node)
        elif n == "BoolectorException":
            setattr(m, n, GhostBtorError)
        else:
            setattr(m, n, getattr(real, n))
    return m
