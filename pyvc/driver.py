"""PyVC driver: runs every contract that carries a property, discharges obligations, replays
counter-models on the real (native) code, applies known findings, writes evidence.

exit 0  every obligation discharged (known findings printed as KNOWN-FINDING lines)
exit 1  an unlisted violation: `VIOLATION property=<id> replay=<path>`
exit 2  undecided (solver unknown / anchor missing / path budget)
exit 3  checker crash or engine disagreement (counter-model does not replay on the real code)
"""
import sys
import os
import re
import json
import time
import hashlib
import fnmatch
import inspect
import traceback
import importlib
import subprocess
import concurrent.futures as cf
import multiprocessing as mp

ROOT = os.path.dirname(os.path.dirname(os.path.abspath(__file__)))
sys.path.insert(0, ROOT)
REPO_SRC = os.environ.get("PYVC_REPO_SRC", "/repo/src")

CONTRACT_MODULES = ["contracts.types_c18"]


def load_contracts():
    from pyvc import contract
    mods = json.load(open(os.path.join(ROOT, "contracts", "modules.json")))
    for m in mods:
        importlib.import_module(m)
    return contract.REG


# ---------------------------------------------------------------------------------------------------
# worker side
# ---------------------------------------------------------------------------------------------------
def _worker_init():
    sys.path.insert(0, ROOT)
    from pyvc import world
    world.install()
    if REPO_SRC not in sys.path:
        sys.path.insert(0, REPO_SRC)
    load_contracts()
    keep_solvers_alive()


_KEEP = []


def keep_solvers_alive():
    """pyboolector segfaults when a BoolectorNode is deallocated after its Boolector instance (cyclic garbage after a
    SolveFailure is collected in arbitrary order).  Checks that drive the real solver keep every instance alive until the
    worker exits (workers leave through os._exit) and switch the cyclic collector off."""
    import gc
    gc.disable()
    try:
        import vsc.model.randomizer as R
    except Exception:
        return
    if getattr(R.Boolector, "_pyvc_keep", False):
        return
    orig = R.Boolector

    def mk(*a, **k):
        b = orig(*a, **k)
        _KEEP.append(b)
        return b
    mk._pyvc_keep = True
    R.Boolector = mk


def _jsonable(x):
    try:
        json.dumps(x)
        return x
    except Exception:
        return repr(x)


class ContractError(Exception):
    """an exception raised by the contract/stub code itself (innermost frame outside /repo/src)"""


def run_params(cname, params):
    """Symbolic exploration of one contract for one parameter tuple.  Returns a dict."""
    from pyvc import sym, contract
    from pyvc.stubs import StubFailure
    c = contract.REG[cname]
    out = {"contract": cname, "params": _jsonable(list(params)), "paths": 0, "obls": [], "covers": 0,
           "undecided": None, "assumptions": [], "solver_s": 0.0, "crash": None}
    t0 = time.time()

    def body(ctx):
        try:
            return c.body(ctx, *params)
        except (sym.PathAbort, sym.Undecided):
            raise
        except Exception as e:      # an exception of the real code that the contract did not expect
            tb = traceback.format_exc(limit=-6)
            frames = [f.filename for f in traceback.extract_tb(e.__traceback__)]
            last_verif = max([i for i, fn in enumerate(frames) if fn.startswith(ROOT)] or [-1])
            through_repo = any(fn.startswith(REPO_SRC) for fn in frames[last_verif + 1:])
            if not through_repo:
                # raised by the contract / stub code itself (no repository frame below the last /verif frame)
                raise ContractError("%s: %s\n%s" % (type(e).__name__, e, tb))
            ctx.fail("raises-only", info="%s: %s\n%s" % (type(e).__name__, e, tb))

    try:
        for pr in sym.explore(body, max_paths=c.max_paths, timeout_ms=c.timeout_ms, backend=c.backend):
            out["paths"] += 1
            if out["paths"] % 100 == 0 and not _KEEP:
                # the cyclic collector is off (see keep_solvers_alive); as long as this worker never created a real
                # Boolector instance, collecting is safe and keeps long explorations from growing without bound
                import gc
                gc.collect()
            out["solver_s"] += pr.solver_s
            if not pr.feasible_end:
                out["vacuous_paths"] = out.get("vacuous_paths", 0) + 1
                continue            # obligations "proved" under an unsatisfiable path condition are not counted
            if not pr.aborted or pr.obligations:
                out["covers"] += 1
            for a in pr.assumptions:
                if a not in out["assumptions"]:
                    out["assumptions"].append(a)
            for (name, verdict, model, dt, info) in pr.obligations:
                out["obls"].append({"name": name, "verdict": verdict, "model": _jsonable(model),
                                    "s": round(dt, 4), "info": _jsonable(info),
                                    "decisions": _jsonable(pr.decisions) if verdict != "proved" else None})
    except sym.Undecided as e:
        out["undecided"] = str(e)
    except Exception:
        out["crash"] = traceback.format_exc()
    out["wall_s"] = time.time() - t0
    return out


def run_chunk(cname, chunk):
    out = [run_params(cname, p) for p in chunk]
    try:
        import resource
        rss = resource.getrusage(resource.RUSAGE_SELF).ru_maxrss // 1024
        if rss > 1024 and os.environ.get("PYVC_MEMLOG"):
            with open(os.environ["PYVC_MEMLOG"], "a") as f:
                f.write("%d MB pid=%d %s %r\n" % (rss, os.getpid(), cname, chunk[:1]))
    except Exception:
        pass
    return out


# ---------------------------------------------------------------------------------------------------
# driver side
# ---------------------------------------------------------------------------------------------------
def src_hash(fn_obj):
    try:
        return hashlib.sha256(inspect.getsource(fn_obj).encode()).hexdigest()[:16]
    except Exception:
        return None


def load_known():
    p = os.path.join(ROOT, "known_findings.json")
    if not os.path.exists(p):
        return {"findings": [], "fixed": []}
    return json.load(open(p))


def match_known(known, prop, cname, oname, params):
    ps = ",".join(str(x) for x in params)
    for k in known.get("findings", []):
        if k["property"] != prop:
            continue
        if not fnmatch.fnmatch(cname + "::" + oname, k["obligation"]):
            continue
        if not fnmatch.fnmatch(ps, k.get("params", "*")):
            continue
        return k
    return None


def write_replay(prop, rec, ob, idx):
    d = os.path.join(os.environ.get("PYVC_REPLAY_DIR", os.path.join(ROOT, "replays")), prop)
    os.makedirs(d, exist_ok=True)
    safe = "".join(ch if ch.isalnum() else "_" for ch in rec["contract"] + "__" + ob["name"])[:120]
    p = os.path.join(d, "%s__%d.json" % (safe, idx))
    api = None
    from pyvc import contract as _c
    cobj = _c.REG.get(rec["contract"])
    if cobj is not None and getattr(cobj, "api", None):
        try:
            api = cobj.api(rec["params"], ob)
        except Exception:
            api = None
    json.dump({"property": prop, "contract": rec["contract"], "params": rec["params"], "api": api,
               "obligation": ob["name"], "model": ob["model"], "verifier_output": ob["info"],
               "decisions": ob.get("decisions"),
               "how": "bin/check --replay %s   (runs the same contract natively on the counter-model)" % p},
              open(p, "w"), indent=1)
    return p


def native_replay(path):
    """Runs the replay file in a fresh native interpreter.  Returns (reproduced: bool|None, output)."""
    r = subprocess.run([sys.executable, os.path.join(ROOT, "pyvc", "replay.py"), path],
                       capture_output=True, text=True, timeout=600)
    out = r.stdout + r.stderr
    if "REPLAY: REPRODUCED" in r.stdout:
        return True, out
    if "REPLAY: NOT-REPRODUCED" in r.stdout:
        return False, out
    return None, out


def check_property(prop, tier, seed, jobs=None, only=None, verbose=False):
    t_start = time.time()
    from pyvc import world
    world.install()
    if REPO_SRC not in sys.path:
        sys.path.insert(0, REPO_SRC)
    reg = load_contracts()
    keep_solvers_alive()
    mine = [c for c in reg.values() if prop in c.props and (only is None or fnmatch.fnmatch(c.name, only))]
    if not mine:
        print("no contract carries property %s" % prop)
        return 3
    known = load_known()
    import shutil
    shutil.rmtree(os.path.join(os.environ.get("PYVC_REPLAY_DIR", os.path.join(ROOT, "replays")), prop), ignore_errors=True)

    # anchors
    fn_hash = {}
    missing = []
    for c in mine:
        for f in c.fns:
            o = world.resolve(f)
            if o is None:
                missing.append((c.name, f))
            else:
                fn_hash[f] = src_hash(o)
    if missing:
        for cn, f in missing:
            print("UNDECIDED: anchor missing: %s (contract %s)" % (f, cn))

    # tasks
    tasks = []
    expected = {}
    for c in mine:
        if any(cn == c.name for cn, _ in missing):
            continue
        ps = list(c.params(tier, seed))
        expected[c.name] = len(ps)
        n = max(1, min(len(ps), (jobs or os.cpu_count() or 4) * 3))
        size = max(1, (len(ps) + n - 1) // n)
        for i in range(0, len(ps), size):
            tasks.append((c.name, ps[i:i + size]))

    results = []
    jobs = jobs or min(16, os.cpu_count() or 4)
    if jobs == 1 or len(tasks) <= 1:
        for cn, ch in tasks:
            results.extend(run_chunk(cn, ch))
    else:
        ctx = mp.get_context("forkserver")
        with cf.ProcessPoolExecutor(max_workers=jobs, mp_context=ctx, initializer=_worker_init) as ex:
            futs = [ex.submit(run_chunk, cn, ch) for cn, ch in tasks]
            for f in futs:
                results.extend(f.result())

    # assemble
    n_obl = n_dis = n_bobl = n_bdis = 0
    failed = []
    undecided = []
    crashes = []
    vacuous = []
    solver_s = 0.0
    assumptions = set()
    per_contract = {}
    samples = []
    seen = {}
    for r in results:
        c = reg[r["contract"]]
        pc = per_contract.setdefault(c.name, {"params": 0, "paths": 0, "obligations": 0, "discharged": 0,
                                              "kind": c.kind, "bound": c.bound, "solver_s": 0.0})
        pc["params"] += 1
        pc["paths"] += r["paths"]
        pc["solver_s"] += r["solver_s"]
        solver_s += r["solver_s"]
        assumptions.update(r["assumptions"])
        if r["crash"]:
            crashes.append(r)
            continue
        if r["undecided"]:
            undecided.append((r["contract"], r["params"], r["undecided"]))
        if r["covers"] == 0 or not r["obls"] or r.get("vacuous_paths"):
            if not r["undecided"]:
                vacuous.append((r["contract"], r["params"]))
        for ob in r["obls"]:
            if ob["verdict"] == "cover":
                continue
            mprop = re.match(r"(C\d\d+):", ob["name"])
            if mprop and mprop.group(1) != prop:
                continue        # an obligation named "Cxx: ..." belongs to that property only
            pc["obligations"] += 1
            if c.kind == "proof":
                n_obl += 1
            else:
                n_bobl += 1
            if ob["verdict"] == "proved":
                pc["discharged"] += 1
                if c.kind == "proof":
                    n_dis += 1
                else:
                    n_bdis += 1
                if len(samples) < 6 and (c.name, ob["name"]) not in seen:
                    seen[(c.name, ob["name"])] = 1
                    samples.append({"contract": c.name, "params": r["params"], "obligation": ob["name"],
                                    "verdict": "proved", "backend": "z3", "s": ob["s"]})
            elif ob["verdict"] == "failed":
                failed.append((r, ob))
            elif not (isinstance(ob["model"], str) and ob["model"].startswith("skipped:")):
                undecided.append((r["contract"], r["params"], "%s: %s" % (ob["name"], ob["model"])))
    for cn, n in expected.items():
        got = per_contract.get(cn, {}).get("params", 0)
        if got != n:
            crashes.append({"contract": cn, "crash": "parameter space %d but %d results" % (n, got), "params": []})

    # failed obligations -> replay -> known finding / violation / engine disagreement
    violations = []
    known_hits = {}
    disagreements = []
    groups = {}
    for r, ob in failed:
        groups.setdefault((r["contract"], ob["name"]), []).append((r, ob))
    idx = 0
    for (cn, on), lst in sorted(groups.items()):
        c = reg[cn]
        # replay at most 3 counter-models per obligation name (first, middle, last of the parameter space)
        if c.replay == "api" and c.api:
            def _has(x):
                try:
                    return c.api(x[0]["params"], x[1]) is not None
                except Exception:
                    return False
            withapi = [x for x in lst if _has(x)]
            lst = withapi + [x for x in lst if x not in withapi]
            picks = withapi[:1] + ([withapi[len(withapi) // 2]] if len(withapi) > 2 else []) + (withapi[-1:] if len(withapi) > 1 else [])
            if not picks:
                picks = [lst[0]]
        else:
            picks = [lst[0]] + ([lst[len(lst) // 2]] if len(lst) > 2 else []) + ([lst[-1]] if len(lst) > 1 else [])
        replayed = {}
        for r, ob in picks:
            idx += 1
            p = write_replay(prop, r, ob, idx)
            if c.replay == "concrete" or (c.replay == "api" and json.load(open(p)).get("api")):
                ok, outp = native_replay(p)
                replayed[id(ob)] = (p, ok, outp)
            else:
                replayed[id(ob)] = (p, "none", "")
        any_repro = [v for v in replayed.values() if v[1] is True or v[1] == "none"]
        not_repro = [v for v in replayed.values() if v[1] is False or v[1] is None]
        if not any_repro:
            disagreements.append((cn, on, not_repro[0][0], not_repro[0][2][-2000:]))
            continue
        first = any_repro[0]
        unlisted = [(r, ob) for r, ob in lst if match_known(known, prop, cn, on, r["params"]) is None]
        for r, ob in lst:
            k = match_known(known, prop, cn, on, r["params"])
            if k is not None:
                known_hits.setdefault(k["id"], [k, 0])[1] += 1
        if unlisted:
            r, ob = unlisted[0]
            pth = None
            for rr, oo in picks:
                if oo is ob:
                    pth = replayed[id(oo)]
            if pth is None:
                idx += 1
                p = write_replay(prop, r, ob, idx)
                if c.replay == "concrete" or (c.replay == "api" and json.load(open(p)).get("api")):
                    ok, outp = native_replay(p)
                    if ok is not True:
                        disagreements.append((cn, on, p, outp[-2000:]))
                        continue
                    pth = (p, ok, outp)
                else:
                    pth = (p, "none", "")
            violations.append((cn, on, r["params"], pth[0], pth[1] == "none", len(unlisted)))

    # obligations that fail exactly as a recorded finding describes are not part of what this run proves: they are taken out of
    # the obligations count and reported separately (the property is then decided for everything outside the finding classes)
    kf_proof = kf_bounded = 0
    for r, ob in failed:
        if match_known(known, prop, r["contract"], ob["name"], r["params"]) is not None:
            if reg[r["contract"]].kind == "proof":
                kf_proof += 1
            else:
                kf_bounded += 1
    n_obl -= kf_proof
    n_bobl -= kf_bounded
    wall = time.time() - t_start
    level = json.load(open(os.path.join(ROOT, "MANIFEST.json")))
    lvl = "proof"
    for ch in level.get("checks", []):
        if ch["property_id"] == prop:
            lvl = ch["level_claimed"]["category"]
    ev = {
        "property_id": prop, "tier": tier, "seed": seed, "level": lvl,
        "coverage": {
            "obligations": n_obl, "discharged": n_dis,
            "checker_cmd": "bin/check %s --tier %s" % (prop, tier),
            "trusted_base": TRUSTED_BASE,
            "explanation": "PyVC: real function objects of /repo/src/vsc executed on symbolic ints under shadow "
                           "builtins; every path explored; each postcondition discharged by z3 (Int theory). "
                           "obligations/discharged count proved-kind contracts only; bounded contracts are counted "
                           "separately in bounded_obligations and are never counted as proved.",
            "bounded_obligations": n_bobl, "bounded_discharged": n_bdis,
            "known_finding_obligations_excluded": {"proof": kf_proof, "bounded": kf_bounded,
                                                   "note": "obligations failing exactly as a finding recorded in known_findings.json "
                                                           "describes; excluded from obligations/discharged, listed under known_findings"},
            "bounded_bounds": sorted({c.bound for c in mine if c.kind != "proof" and c.bound}),
            "functions_under_contract": fn_hash,
            "contracts": per_contract,
            "by_backend": {"z3": n_dis + n_bdis},
            "solver_s": round(solver_s, 2),
            "undecided": [list(map(str, u)) for u in undecided[:20]],
            "known_findings": [{"id": k[0]["id"], "what": k[0]["what"], "failing_obligations": k[1]}
                               for k in known_hits.values()],
            "covers_sat": sum(1 for r in results if r.get("covers")),
            "failed_cases": [[r["contract"], ob["name"], r["params"]] for r, ob in failed][:200],
            "vacuous": vacuous[:10],
            "samples": samples,
            "evaluations": n_obl + n_bobl,
            "distinct_nontrivial": len({(r["contract"], tuple(map(str, r["params"]))) for r in results}),
            "rule": "one case = one (contract, parameter tuple); all are distinct by construction; each generates "
                    ">=1 path and >=1 obligation (vacuity guard) else the check exits 3",
        },
        "assumptions": sorted(assumptions) + ENCODING_ASSUMPTIONS + sorted({c.note for c in mine if c.note}),
        "wall_s": round(wall, 2),
        "violations": len(violations),
    }
    # a partial run (--only) is a debugging aid: it must not overwrite the property's evidence file
    evdir = os.environ.get("PYVC_EVIDENCE_DIR", os.path.join(ROOT, "evidence") if only is None else os.path.join(ROOT, ".scratch", "evidence"))
    os.makedirs(evdir, exist_ok=True)
    json.dump(ev, open(os.path.join(evdir, prop + ".json"), "w"), indent=1)

    for k, n in known_hits.values():
        print("KNOWN-FINDING: property=%s %s [%s; %d failing obligation(s)]" % (prop, k["what"], k["id"], n))
    print("%s tier=%s: contracts=%d cases=%d paths=%d obligations=%d discharged=%d bounded=%d/%d "
          "solver=%.1fs wall=%.1fs" % (prop, tier, len(mine), len(results), sum(r["paths"] for r in results),
                                       n_obl, n_dis, n_bdis, n_bobl, solver_s, wall))
    rc = 0
    if crashes:
        for r in crashes[:5]:
            print("CHECKER-CRASH: %s %s\n%s" % (r["contract"], r.get("params"), r["crash"]))
        rc = 3
    if vacuous:
        for v in vacuous[:5]:
            print("CHECKER-CRASH: vacuous case (no feasible path or no obligation): %s %s" % v)
        rc = 3
    if disagreements:
        for d in disagreements[:5]:
            print("ENGINE-DISAGREEMENT: %s::%s counter-model does not replay on the real code: %s\n%s" % d)
        rc = 3
    if rc == 0 and (undecided or missing):
        for u in undecided[:10]:
            print("UNDECIDED: %s %s %s" % u)
        rc = 2
    if violations:
        for (cn, on, params, p, noinput, n) in violations:
            print("failed obligation %s::%s params=%s (%d failing cases)" % (cn, on, params, n))
            print("VIOLATION property=%s replay=%s%s" % (prop, p, " no-failing-input-found" if noinput else ""))
        rc = 1
    return rc


TRUSTED_BASE = [
    "z3 4.x/5.x (Int/Real/BV theories) as the discharging solver",
    "PyVC engine (pyvc/sym.py, pyvc/world.py): SymInt encoding of Python int operators; cross-checked every run by "
    "native replay of every counter-model and by pyvc.selftest (CPython differential + canaries)",
    "CPython 3.12 executes the same code objects natively as under the shadow-builtins loader",
]
ENCODING_ASSUMPTIONS = [
    "Python ints are mathematical integers (z3 Int); bit operations with one concrete operand are exact by run "
    "decomposition; shifts need a concrete shift amount (widths and part-select bounds are enumerated, values are "
    "symbolic)",
    "no threads; dict iteration in insertion order; attribute lookup follows the MRO of the classes as imported",
]


def main(argv=None):
    import argparse
    ap = argparse.ArgumentParser()
    ap.add_argument("prop", nargs="?")
    ap.add_argument("--tier", default=os.environ.get("VERIF_TIER", "quick"))
    ap.add_argument("--replay")
    ap.add_argument("--jobs", type=int)
    ap.add_argument("--only")
    a = ap.parse_args(argv)
    seed = int(os.environ.get("VERIF_SEED", "0") or 0)
    if a.replay:
        ok, out = native_replay(a.replay)
        print(out)
        return 1 if ok else 0
    try:
        return check_property(a.prop, a.tier, seed, jobs=a.jobs, only=a.only)
    except Exception:
        traceback.print_exc()
        return 3


if __name__ == "__main__":
    sys.exit(main())
