"""Differential self-test of the ghost Boolector model against the installed pyboolector: every operator the ghost models is
evaluated on random constant operands in both; the results (or the fact that the call is rejected) must agree.
Run as a module; exits through os._exit (pyboolector's deallocation order, see driver.keep_solvers_alive)."""
import os
import sys
import random

ROOT = os.path.dirname(os.path.dirname(os.path.abspath(__file__)))
sys.path.insert(0, ROOT)


def main(n=400, seed=7):
    import gc
    gc.disable()
    import z3
    import pyboolector
    from pyboolector import Boolector
    from pyvc import sym
    from pyvc.ghost_btor import GhostBoolector, GhostBtorError
    sym.Ctx.cur = sym.Ctx([])
    r = random.Random(seed)
    keep = []
    bad = cnt = 0
    BIN = ["And", "Or", "Xor", "Add", "Sub", "Mul", "Udiv", "Urem", "Sdiv", "Srem", "Smod", "Nand", "Nor", "Xnor",
           "Eq", "Ne", "Ult", "Ulte", "Ugt", "Ugte", "Slt", "Slte", "Sgt", "Sgte", "Sll", "Srl", "Sra", "Concat", "Implies", "Iff"]
    UN = ["Not", "Neg", "Inc", "Dec", "Redor", "Redand"]

    def real_eval(op, args, widths, extra=()):
        b = Boolector()
        keep.append(b)
        b.Set_opt(pyboolector.BTOR_OPT_MODEL_GEN, 1) if hasattr(pyboolector, "BTOR_OPT_MODEL_GEN") else \
            b.Set_opt(pyboolector.BtorOption.BTOR_OPT_MODEL_GEN, 1)
        ns = [b.Const(v, w) for v, w in zip(args, widths)]
        try:
            n = getattr(b, op)(*ns, *extra)
        except Exception as e:
            return ("raises", type(e).__name__)
        b.Sat()
        return (n.width, int(n.assignment, 2))

    def ghost_eval(op, args, widths, extra=()):
        g = GhostBoolector()
        ns = [g.Const(v, w) for v, w in zip(args, widths)]
        try:
            n = getattr(g, op)(*ns, *extra)
        except GhostBtorError:
            return ("raises", "BoolectorException")
        t = z3.simplify(n.term)
        return (n.width, t.as_long())

    for i in range(n):
        w1 = r.choice([1, 2, 3, 4, 8, 16, 33, 64])
        w2 = w1 if r.random() < 0.7 else r.choice([1, 2, 3, 4, 8, 16, 33])
        a = r.choice([0, 1, (1 << w1) - 1, 1 << (w1 - 1), r.randrange(1 << w1)])
        b = r.choice([0, 1, (1 << w2) - 1, 1 << (w2 - 1), r.randrange(1 << w2)])
        for op in BIN:
            if op in ("Udiv", "Urem", "Sdiv", "Srem", "Smod") and b == 0:
                continue          # division by zero: left unspecified by R-EXPR, not compared
            cnt += 1
            x, y = real_eval(op, (a, b), (w1, w2)), ghost_eval(op, (a, b), (w1, w2))
            if x != y:
                bad += 1
                if bad < 12:
                    print("MISMATCH %s(%d:%d, %d:%d) real=%r ghost=%r" % (op, a, w1, b, w2, x, y))
        for op in UN:
            cnt += 1
            x, y = real_eval(op, (a,), (w1,)), ghost_eval(op, (a,), (w1,))
            if x != y:
                bad += 1
                if bad < 12:
                    print("MISMATCH %s(%d:%d) real=%r ghost=%r" % (op, a, w1, x, y))
        for op, extra in (("Uext", (r.choice([0, 1, 5]),)), ("Sext", (r.choice([0, 1, 5]),)),
                          ("Slice", tuple(sorted((r.randrange(w1 + 1), r.randrange(w1 + 1)), reverse=True)))):
            cnt += 1
            x, y = real_eval(op, (a,), (w1,), extra), ghost_eval(op, (a,), (w1,), extra)
            if x != y:
                bad += 1
                if bad < 12:
                    print("MISMATCH %s(%d:%d, %r) real=%r ghost=%r" % (op, a, w1, extra, x, y))
        c = r.randrange(2)
        cnt += 1
        x, y = real_eval("Cond", (c, a, b), (1, w1, w2)), ghost_eval("Cond", (c, a, b), (1, w1, w2))
        if x != y:
            bad += 1
            if bad < 12:
                print("MISMATCH Cond(%d, %d:%d, %d:%d) real=%r ghost=%r" % (c, a, w1, b, w2, x, y))
    print("selftest_btor: %d comparisons, %d mismatches" % (cnt, bad))
    sys.stdout.flush()
    os._exit(1 if bad else 0)


if __name__ == "__main__":
    main()
