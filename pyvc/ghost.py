"""Ghost models of externals used by several contracts."""
import z3
from .sym import SymInt, Ctx


class GhostRng:
    """ghost random.Random / RandState.rng: every draw is a fresh symbolic integer inside the requested bounds and is logged"""

    def __init__(self, c, name="r"):
        self.c = c
        self.name = name
        self.draws = []

    @staticmethod
    def _int(x):
        # random.Random.randint / RandState.randint convert their bounds with int()
        while not isinstance(x, (int, SymInt)) and hasattr(type(x), "__int__"):
            x = type(x).__int__(x)
        return x

    def randint(self, lo, hi):
        lo, hi = self._int(lo), self._int(hi)
        r = self.c.fresh_int(self.name)
        self.c.assume(r >= lo)
        self.c.assume(r <= hi)
        self.draws.append((lo, hi, r))
        return r

    def randrange(self, *a):
        raise AssertionError("ghost rng: randrange is not used by the functions under contract")

    def __getattr__(self, n):
        raise AssertionError("ghost rng: unexpected use of rng.%s" % n)


class GhostRandState:
    def __init__(self, c, name="r"):
        self.rng = GhostRng(c, name)

    def randint(self, lo, hi):
        return self.rng.randint(lo, hi)

    def rand_u(self):
        return self.rng.randint(0, 0xFFFFFFFFFFFFFFFF)

    def rand_s(self):
        return self.rng.randint(-(1 << 63), (1 << 63) - 1)

    def randbits(self, n):
        return self.rng.randint(0, (1 << n) - 1)


class TripWire:
    """stands in for a module (random, time) that must not be used inside the function under contract"""

    def __init__(self, name, log):
        self.__dict__["_n"] = name
        self.__dict__["_log"] = log

    def __getattr__(self, a):
        self._log.append("%s.%s" % (self._n, a))
        raise AssertionError("trip-wire: %s.%s used inside a solve path" % (self._n, a))


class patched:
    """temporarily replaces attributes of modules/classes (function globals are module dicts)"""

    def __init__(self, *triples):
        self.triples = triples
        self.saved = []

    def __enter__(self):
        for obj, name, val in self.triples:
            d = obj.__dict__
            self.saved.append((obj, name, d.get(name, _MISSING)))
            setattr(obj, name, val)
        return self

    def __exit__(self, *a):
        for obj, name, old in reversed(self.saved):
            if old is _MISSING:
                delattr(obj, name)
            else:
                setattr(obj, name, old)
        return False


_MISSING = object()
