"""Loads the real `vsc` package from /repo/src with *shadow builtins*.

Every module of the package is compiled from the file in /repo/src at check time (standard
SourceFileLoader.get_code) and executed in a namespace whose `__builtins__` is a shadow dict, so the
functions that run are the repository's own code objects; only the meaning of the names `int`,
`isinstance`, `len`, `range`, `print`, `abs`, `round`, `float`, `str`, `bin`, `pow`, `type`-free builtins listed below is made aware of symbolic values.  On concrete
values every shadow builtin behaves exactly like the original (checked by pyvc.selftest).
Nothing is written to /repo (sys.dont_write_bytecode).
"""
import sys
import os
import builtins
import importlib.abc
import importlib.machinery
import importlib.util
import z3

from . import sym
from .sym import SymInt, SymBool, SymReal, Ctx

sys.dont_write_bytecode = True
REPO_SRC = os.environ.get("PYVC_REPO_SRC", "/repo/src")

_int = builtins.int
_isinstance = builtins.isinstance
_len = builtins.len
_range = builtins.range

PRINT_LOG = []


class _IntMeta(type):
    def __instancecheck__(cls, inst):
        if cls is ShadowInt:
            return _isinstance(inst, (_int, SymInt))
        return type.__instancecheck__(cls, inst)

    def __subclasscheck__(cls, sub):
        if cls is ShadowInt:
            return issubclass(sub, _int) or issubclass(sub, SymInt)
        return type.__subclasscheck__(cls, sub)

    def __eq__(cls, other):
        # `type(t) == int` in the real code must keep working for concrete ints
        return other is cls or (cls is ShadowInt and other is _int)

    def __hash__(cls):
        return hash(_int) if cls is ShadowInt else type.__hash__(cls)


_symsub = {}


def _sym_subclass(cls):
    """For `class ValueInt(int)` of the real code: a SymInt subclass carrying the real methods."""
    k = _symsub.get(cls)
    if k is None:
        ns = {n: v for n, v in cls.__dict__.items()
              if n not in ("__dict__", "__weakref__", "__module__", "__doc__", "__new__")}
        k = type("Sym" + cls.__name__, (SymInt,), ns)
        k._mk = lambda self, z: SymInt(z)
        _symsub[cls] = k
    return k


class ShadowInt(_int, metaclass=_IntMeta):
    def __new__(cls, x=0, *a):
        if _isinstance(x, SymBool):
            x = SymInt(sym.toint(x))
        if _isinstance(x, SymReal):
            x = x.__int__()
        if not _isinstance(x, (SymInt, _int, str, float, bytes)) and hasattr(type(x), "__int__"):
            x = type(x).__int__(x)
        if _isinstance(x, SymInt):
            if cls is ShadowInt:
                return x if type(x) is SymInt else SymInt(x.z)
            k = _sym_subclass(cls)
            return k(x.z)
        if _isinstance(x, SymBits):
            return x.to_int(*a)
        if cls is ShadowInt:
            return _int(x, *a)
        return _int.__new__(cls, x, *a)


class SymBits:
    """The string returned by a ghost solver node's .assignment: int(bits, 2) is its unsigned value."""

    def __init__(self, z_unsigned_int, width):
        self.z = z_unsigned_int
        self.width = width

    def to_int(self, base=10):
        if base != 2:
            raise ValueError("assignment strings are binary")
        return SymInt(self.z)


def s_isinstance(o, t):
    if t is _int or t is ShadowInt:
        return _isinstance(o, (_int, SymInt))
    if _isinstance(t, tuple):
        return any(s_isinstance(o, x) for x in t)
    if t is bool and _isinstance(o, SymBool):
        return True
    return _isinstance(o, t)


def s_range(*a):
    c = Ctx.cur
    a = [c.concretize(x) if _isinstance(x, SymInt) else x for x in a]
    return _range(*a)


def s_len(o):
    f = getattr(type(o), "__symlen__", None)
    if f is not None:
        return f(o)
    return _len(o)


def s_print(*a, **k):
    PRINT_LOG.append(a)


def s_abs(x):
    return x.__abs__() if _isinstance(x, SymInt) else builtins.abs(x)


def s_round(x, *a):
    if _isinstance(x, SymInt):
        return x
    return builtins.round(x, *a)


def s_float(x=0.0):
    if _isinstance(x, SymInt):
        return SymReal(z3.ToReal(x.z))
    if _isinstance(x, SymReal):
        return x
    return builtins.float(x)


def s_bool_like(x):
    return builtins.bool(x)


def s_bin(x):
    return "0b<%r>" % (x,) if _isinstance(x, SymInt) else builtins.bin(x)


def s_hex(x):
    return "0x<%r>" % (x,) if _isinstance(x, SymInt) else builtins.hex(x)


SHADOW = dict(builtins.__dict__)
SHADOW.update({
    "int": ShadowInt,
    "isinstance": s_isinstance,
    "range": s_range,
    "len": s_len,
    "print": s_print,
    "abs": s_abs,
    "round": s_round,
    "float": s_float,
    "bin": s_bin,
    "hex": s_hex,
})


def _wrap_bool(cls):
    orig = cls.__dict__["__bool__"]

    def __bool__(self):
        r = orig(self)
        if _isinstance(r, (SymBool, SymInt)):
            return builtins.bool(r)          # fork point
        return r
    __bool__.__wrapped__ = orig
    cls.__bool__ = __bool__


class _Loader(importlib.machinery.SourceFileLoader):
    def exec_module(self, module):
        code = self.get_code(module.__name__)
        module.__dict__["__builtins__"] = SHADOW
        exec(code, module.__dict__)
        # CPython insists that __bool__ returns a real bool.  A repository class whose __bool__ returns a stored value
        # (ValueBool.__bool__ returns self.v) would make that check fail on a symbolic value, so the *protocol adapter* below
        # forks on the symbolic result; the method body itself is the repository's.
        for obj in list(module.__dict__.values()):
            if _isinstance(obj, type) and obj.__module__ == module.__name__ and "__bool__" in obj.__dict__:
                _wrap_bool(obj)


class _Finder(importlib.abc.MetaPathFinder):
    def find_spec(self, fullname, path, target=None):
        if fullname != "vsc" and not fullname.startswith("vsc."):
            return None
        parts = fullname.split(".")
        base = os.path.join(REPO_SRC, *parts)
        if os.path.isdir(base) and os.path.exists(os.path.join(base, "__init__.py")):
            fn = os.path.join(base, "__init__.py")
            return importlib.util.spec_from_file_location(
                fullname, fn, loader=_Loader(fullname, fn), submodule_search_locations=[base])
        fn = base + ".py"
        if os.path.exists(fn):
            return importlib.util.spec_from_file_location(fullname, fn, loader=_Loader(fullname, fn))
        return None


_installed = False


def install():
    """Must be called before the first `import vsc`."""
    global _installed
    if _installed:
        return
    assert "vsc" not in sys.modules, "vsc already imported natively"
    sys.meta_path.insert(0, _Finder())
    _installed = True


def resolve(dotted):
    """'vsc.types.type_base.set_val' -> object, or None when the anchor is missing."""
    import importlib
    parts = dotted.split(".")
    for i in range(len(parts), 0, -1):
        try:
            obj = importlib.import_module(".".join(parts[:i]))
        except ImportError:
            continue
        try:
            for p in parts[i:]:
                obj = obj.__dict__[p] if _isinstance(obj, type) and p in obj.__dict__ else getattr(obj, p)
        except (AttributeError, KeyError):
            return None
        return obj
    return None
