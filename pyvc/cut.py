"""Loop cutting by mechanical extraction.

loop_step(fn, ordinal) parses inspect.getsource(fn) on every run, takes the `ordinal`-th `for`/`while` statement
(pre-order), and compiles its *body* - the unmodified statements of the repository - into a step function

    step(state: dict, item) -> (state': dict, control)        control in {"next", "break", "return"}

in the real function's globals (so the shadow builtins apply).  `state` carries every local name the body reads or
assigns; for a `for` loop `item` is bound to the loop target, for a `while` loop the guard is returned by
guard(state).  A contract then proves the inductive step of a loop invariant for *arbitrary* symbolic state, which
covers any number of iterations.  What the extraction drops: nothing inside the body; the loop header's iterable
expression and the code around the loop are *not* part of the step - they are covered by whole-function runs on
concrete/short inputs in the same contract, and the run records the header source text so a changed header shows.
"""
import ast
import inspect
import textwrap


class _Ctl(ast.NodeTransformer):
    """break/continue/return at loop depth 0 of the extracted body -> control codes"""

    def __init__(self):
        self.depth = 0

    def visit_For(self, node):
        self.depth += 1
        self.generic_visit(node)
        self.depth -= 1
        return node
    visit_While = visit_For

    def visit_FunctionDef(self, node):
        return node

    def visit_Break(self, node):
        if self.depth == 0:
            return [ast.parse("__ctl = 'break'").body[0], ast.Break()]
        return node

    def visit_Continue(self, node):
        if self.depth == 0:
            return [ast.parse("__ctl = 'next'").body[0], ast.Break()]
        return node

    def visit_Return(self, node):
        v = node.value if node.value is not None else ast.Constant(None)
        a = ast.Assign(targets=[ast.Name("__ret", ast.Store())], value=v)
        b = ast.parse("__ctl = 'return'").body[0]
        if self.depth == 0:
            return [a, b, ast.Break()]
        raise NotImplementedError("return inside a nested loop of a cut loop")


def _names(nodes):
    loads, stores = set(), set()
    for n in nodes:
        for x in ast.walk(n):
            if isinstance(x, ast.Name):
                (stores if isinstance(x.ctx, (ast.Store, ast.Del)) else loads).add(x.id)
    return loads, stores


def find_loops(fn):
    src = textwrap.dedent(inspect.getsource(fn))
    tree = ast.parse(src)
    fdef = tree.body[0]
    loops = [n for n in ast.walk(fdef) if isinstance(n, (ast.For, ast.While))]
    loops.sort(key=lambda n: (n.lineno, n.col_offset))
    return src, fdef, loops


def loop_step(fn, ordinal):
    """-> (step, header_text, guard|None, info)"""
    src, fdef, loops = find_loops(fn)
    if ordinal >= len(loops):
        return None
    loop = loops[ordinal]
    flocals = set(fn.__code__.co_varnames) | set(fn.__code__.co_cellvars)
    body = [_Ctl().visit(ast.parse(ast.unparse(s)).body[0]) for s in loop.body]
    flat = []
    for b in body:
        flat.extend(b if isinstance(b, list) else [b])
    loads, stores = _names(loop.body + ([loop.test] if isinstance(loop, ast.While) else []))
    tgt_names = set()
    if isinstance(loop, ast.For):
        _, tgt_names = _names([loop.target])
    st_names = sorted(((loads | stores) & flocals) - tgt_names)
    lines = ["def __step(__st, __item=None):"]
    for n in st_names:
        lines.append("    if %r in __st: %s = __st[%r]" % (n, n, n))
    lines.append("    __ctl = 'next'")
    lines.append("    __ret = None")
    if isinstance(loop, ast.For):
        lines.append("    %s = __item" % ast.unparse(loop.target))
    lines.append("    for __once in (0,):")
    for s in flat:
        for ln in ast.unparse(s).splitlines():
            lines.append("        " + ln)
    lines.append("    __out = {}")
    lines.append("    __loc = locals()")
    for n in st_names:
        lines.append("    if %r in __loc: __out[%r] = __loc[%r]" % (n, n, n))
    lines.append("    return __out, __ctl, __ret")
    code = "\n".join(lines)
    g = dict(fn.__globals__)
    exec(compile(code, "<cut:%s#%d>" % (fn.__qualname__, ordinal), "exec"), g)
    step = g["__step"]
    guard = None
    if isinstance(loop, ast.While):
        gl = ["def __guard(__st):"]
        for n in st_names:
            gl.append("    if %r in __st: %s = __st[%r]" % (n, n, n))
        gl.append("    return (%s)" % ast.unparse(loop.test))
        exec(compile("\n".join(gl), "<cut-guard>", "exec"), g)
        guard = g["__guard"]
    header = ast.unparse(loop.iter) if isinstance(loop, ast.For) else ast.unparse(loop.test)
    info = {"function": fn.__qualname__, "ordinal": ordinal, "kind": type(loop).__name__, "header": header,
            "state": st_names, "body_src": "\n".join(ast.unparse(s) for s in loop.body)}
    return step, header, guard, info
