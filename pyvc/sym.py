"""PyVC symbolic values and path explorer.

The real function objects of /repo/src/vsc are executed on these proxies.  A SymInt stands for a
Python `int` (mathematical, unbounded: z3 Int).  A SymBool stands for the result of a comparison;
`bool(SymBool)` is a fork point of the explorer.  Nothing here knows anything about pyvsc.

Python semantics encoded (and assumed) by the Int back end:
  x & m, x | m, x ^ m    exact when one operand is concrete (any sign): the concrete operand is
                         decomposed into runs of one-bits, each run is a div/mod pair
  x >> k, x << k         k concrete, floor semantics (Python's arithmetic shift)
  ~x                     -x-1
  x // y, x % y          Python floor division / modulo (sign of the divisor)
  x / y                  SymReal (z3 Real); int() of it truncates toward zero.  CPython computes a
                         correctly rounded double quotient, so this is exact only below 2**53: recorded
                         as an assumption whenever it is used (ctx.assumptions).
  both operands symbolic in & | ^ : encoded through int2bv at width BVW (default 80) under the
                         recorded side condition 0 <= x,y < 2**BVW, which is itself a proof obligation.
"""
import z3
import time
import builtins as _b

BVW = 192
BV_MAG = 96      # default magnitude precondition of fresh BV ints: -2**96 <= v < 2**96


class PathAbort(Exception):
    """Raised to abandon the current path (infeasible / budget)."""


class Undecided(Exception):
    pass


class Ctx:
    """Exploration context of one path execution."""
    cur = None

    def __init__(self, prefix, timeout_ms=20000, backend="int"):
        self.backend = backend
        self.prefix = list(prefix)
        self.pos = 0
        self.decisions = []      # what was decided on this execution
        self.alts = []           # alternative prefixes discovered
        self.pc = []             # list of z3 BoolRef
        self.solver = z3.Solver()
        self.solver.set("timeout", timeout_ms)
        self.nfresh = 0
        self.nfailed_checks = 0
        self.slow_checks_s = 0.0
        self.timeout_ms = timeout_ms
        self.obligations = []    # (name, verdict, model|None, secs, info)
        self.assumptions = set()
        self.ghost = {}
        self.solver_s = 0.0
        self.in_spec = 0
        self.names = {}

    # ---- fresh symbols -------------------------------------------------------------------------
    def fresh_int(self, name=None, lo=None, hi=None):
        n = self.names.get(name, 0)
        self.names[name] = n + 1
        nm = "%s#%d" % (name or "i", n)
        if self.backend == "bv":
            v = SymInt(z3.BitVec(nm, BVW))
            if lo is None or lo < -(1 << BV_MAG):
                self.assume_z3(v.z >= -(1 << BV_MAG))
            if hi is None or hi >= (1 << BV_MAG):
                self.assume_z3(v.z < (1 << BV_MAG))
            self.assumptions.add("BV back end: symbolic inputs range over -2**%d <= v < 2**%d (%d-bit two's complement, "
                                 "no-overflow side conditions proved)" % (BV_MAG, BV_MAG, BVW))
        else:
            v = SymInt(z3.Int(nm))
        if lo is not None:
            self.assume_z3(v.z >= lo)
        if hi is not None:
            self.assume_z3(v.z <= hi)
        return v

    def fresh_bool(self, name=None):
        n = self.names.get(name, 0)
        self.names[name] = n + 1
        return SymBool(z3.Bool("%s#%d" % (name or "b", n)))

    # ---- path condition ------------------------------------------------------------------------
    def assume_z3(self, c):
        self.pc.append(c)
        self.solver.add(c)

    def assume(self, c):
        self.assume_z3(tobool(c))

    def _check(self, *extra):
        t0 = time.time()
        r = self.solver.check(*extra)
        self.solver_s += time.time() - t0
        return r

    def feasible(self, c):
        r = self._check(c)
        if r == z3.unknown:
            raise Undecided("feasibility unknown: %s" % self.solver.reason_unknown())
        return r == z3.sat

    # ---- fork ----------------------------------------------------------------------------------
    def decide(self, c):
        """Fork on z3 Bool c; returns a concrete bool for this path."""
        if self.in_spec:
            raise RuntimeError("fork inside a specification expression: use z3 combinators")
        c = z3.simplify(c)
        if z3.is_true(c):
            return True
        if z3.is_false(c):
            return False
        if self.pos < len(self.prefix):
            d = self.prefix[self.pos]
            self.pos += 1
            assert d[0] in ('b', 'f'), "decision prefix out of sync (%r)" % (d,)
            val = d[1]
            self.decisions.append(d)
            self.assume_z3(c if val else z3.Not(c))
            return val
        self.pos += 1
        t_ok = self.feasible(c)
        f_ok = self.feasible(z3.Not(c))
        if t_ok and f_ok:
            self.alts.append(self.decisions + [('b', False)])
            self.decisions.append(('b', True))
            self.assume_z3(c)
            return True
        if t_ok:
            self.decisions.append(('f', True))
            self.assume_z3(c)       # implied; keeps later queries cheap
            return True
        if f_ok:
            self.decisions.append(('f', False))
            self.assume_z3(z3.Not(c))
            return False
        raise PathAbort("path condition infeasible")

    def concretize(self, x, limit=64):
        """Complete case split of a SymInt over the values the path condition admits."""
        if not isinstance(x, SymInt):
            return x
        cv = x._conc()
        if cv is not None:
            return cv
        if self.in_spec:
            raise RuntimeError("concretize inside a specification expression")
        if self.pos < len(self.prefix):
            d = self.prefix[self.pos]
            self.pos += 1
            assert d[0] == 'c', "decision prefix out of sync (%r)" % (d,)
            excluded, chosen = d[1], d[2]
        else:
            excluded, chosen = (), None
            self.pos += 1
        if chosen is None:
            for e in excluded:
                self.assume_z3(x.z != e)
            r = self._check()
            if r == z3.unknown:
                raise Undecided("concretize unknown")
            if r == z3.unsat:
                raise PathAbort("no further value")
            chosen = SymInt(self.solver.model().eval(x.z, model_completion=True))._conc()
            if len(excluded) + 1 > limit:
                raise Undecided("concretize: more than %d values" % limit)
            self.alts.append(self.decisions + [('c', excluded + (chosen,), None)])
            # on this path the exclusions were added but we now fix the value; exclusions are implied
        self.decisions.append(('c', excluded, chosen))
        self.assume_z3(x.z == chosen)
        return chosen

    def summarize(self, fn):
        """Explores every local path of the Boolean-valued fn() under the current path condition *without* forking the
        enclosing path, and returns the merged result (disjunction of local-path-condition AND result)."""
        saved = (self.prefix, self.pos, self.decisions, self.alts)
        work = [[]]
        parts = []
        try:
            while work:
                pre = work.pop()
                self.prefix, self.pos, self.decisions, self.alts = pre, 0, [], []
                mark = len(self.pc)
                self.solver.push()
                try:
                    r = fn()
                    local = self.pc[mark:]
                    parts.append(z3.And(*(local + [tobool(r)])) if local else tobool(r))
                except PathAbort:
                    pass
                finally:
                    work.extend(self.alts)
                    del self.pc[mark:]
                    self.solver.pop()
        finally:
            self.prefix, self.pos, self.decisions, self.alts = saved
        return SymBool(z3.Or(*parts)) if parts else SymBool(z3.BoolVal(False))

    # ---- obligations ---------------------------------------------------------------------------
    def prove(self, name, cond, info=None, assume=True):
        """Proof obligation: under the current path condition `cond` holds.  Recorded, then (by default) assumed."""
        c = tobool(cond)
        t0 = time.time()
        r = self._check(z3.Not(c))
        dt = time.time() - t0
        if r == z3.unsat:
            self.obligations.append((name, 'proved', None, dt, info))
        elif r == z3.sat:
            m = self.solver.model()
            md = {}
            for d in m.decls():
                v = m[d]
                try:
                    md[d.name()] = v.as_long() if z3.is_int_value(v) else (v.as_signed_long() if z3.is_bv_value(v) else (z3.is_true(v) if z3.is_bool(v) else str(v)))
                except Exception:
                    md[d.name()] = str(v)
            self.obligations.append((name, 'failed', md, dt, info))
        else:
            self.obligations.append((name, 'unknown', self.solver.reason_unknown(), dt, info))
        if not assume:
            return
        if r != z3.sat:
            self.assume_z3(c)
        else:
            # continue on the part of the path where the obligation holds (if any), so later
            # obligations are not vacuous or drowned
            if self._check(c) == z3.sat:
                self.assume_z3(c)
            else:
                raise PathAbort("obligation fails on the whole path")

    def check(self, name, cond, info=None):
        """Independent proof obligation: recorded, not assumed afterwards.  For pure bit-vector formulas a cheap
        refutation attempt on corner assignments precedes the solver call (a wide sdiv/udiv counter-model search
        costs z3 seconds; evaluating the formula on all-ones / min-int / 1 costs microseconds)."""
        c = tobool(cond)
        if not self.pc:
            m = _quick_refute(c)
            if m is not None:
                self.obligations.append((name, 'failed', m, 0.0, info))
                self.nfailed_checks += 1
                return
        if self.nfailed_checks >= 12 and self.slow_checks_s > 30.0:
            # this case already has refuted obligations and the solver has been slow: the verdict of the case cannot
            # become "proved" any more, so remaining solver calls are skipped (recorded as skipped, never as proved)
            self.obligations.append((name, 'unknown', 'skipped: case already refuted and solver budget used', 0.0, info))
            return
        t0 = time.time()
        n0 = len(self.obligations)
        self.solver.set("timeout", 10000)
        try:
            self.prove(name, c, info, assume=False)
        finally:
            self.solver.set("timeout", self.timeout_ms)
        if self.obligations[-1][1] != 'proved':
            self.nfailed_checks += 1
            self.slow_checks_s += time.time() - t0

    def fail(self, name, info=None):
        """An obligation that fails by reaching this point on a feasible path."""
        r = self._check()
        md = None
        if r == z3.sat:
            m = self.solver.model()
            md = {}
            for d in m.decls():
                v = m[d]
                md[d.name()] = v.as_long() if z3.is_int_value(v) else (v.as_signed_long() if z3.is_bv_value(v) else (z3.is_true(v) if z3.is_bool(v) else str(v)))
        self.obligations.append((name, 'failed', md, 0.0, info))

    def cover(self, name):
        self.obligations.append((name, 'cover', None, 0.0, None))


def _quick_refute(c):
    try:
        from z3 import z3util
        vs = z3util.get_vars(c)
    except Exception:
        return None
    if not vs or not all(z3.is_bv(v) for v in vs) or len(vs) > 4:
        return None
    import itertools
    cands = []
    for v in vs:
        w = v.size()
        cands.append(sorted({0, 1, (1 << w) - 1, 1 << (w - 1), (1 << (w - 1)) - 1, 2 % (1 << w), ((1 << w) - 2) % (1 << w)}))
    for combo in itertools.islice(itertools.product(*cands), 0, 400):
        sub = [(v, z3.BitVecVal(x, v.size())) for v, x in zip(vs, combo)]
        r = z3.simplify(z3.substitute(c, *sub))
        if z3.is_false(r):
            return {str(v): x for v, x in zip(vs, combo)}
    return None


def ctx():
    return Ctx.cur


def tobool(c):
    if isinstance(c, SymBool):
        return c.z
    if isinstance(c, bool):
        return z3.BoolVal(c)
    if isinstance(c, SymInt):
        return c.z != 0
    if z3.is_bool(c):
        return c
    if isinstance(c, int):
        return z3.BoolVal(c != 0)
    raise TypeError("not a boolean: %r" % (c,))


def toint(x):
    """z3 Int term of an integer-like value (Int back end)."""
    if isinstance(x, SymInt):
        return x.z
    if isinstance(x, SymBool):
        return z3.If(x.z, 1, 0)
    if isinstance(x, bool):
        return z3.IntVal(1 if x else 0)
    if isinstance(x, int):
        return z3.IntVal(int.__int__(x) if type(x) is not int else x)
    if z3.is_int(x) or z3.is_bv(x):
        return x
    raise TypeError("not an int: %r" % (x,))


def is_conc(x):
    return isinstance(x, int) and not isinstance(x, SymInt)


def _bvval(v):
    if not (-(1 << (BVW - 1)) <= v < (1 << (BVW - 1))):
        raise Undecided("constant %d does not fit the %d-bit BV back end" % (v, BVW))
    return z3.BitVecVal(v, BVW)


def pair(a, b):
    """Coerce two integer-like operands to z3 terms of one sort.  Returns (az, bz, is_bv)."""
    az = toint(a)
    bz = toint(b)
    abv, bbv = z3.is_bv(az), z3.is_bv(bz)
    if not abv and not bbv:
        return az, bz, False
    if not abv:
        s = z3.simplify(az)
        if not z3.is_int_value(s):
            raise Undecided("mixing Int-sorted and BV-sorted symbolic values")
        az = _bvval(s.as_long())
    if not bbv:
        s = z3.simplify(bz)
        if not z3.is_int_value(s):
            if z3.is_app(s) and s.decl().kind() == z3.Z3_OP_ITE and all(z3.is_int_value(x) for x in s.children()[1:]):
                bz = z3.If(s.arg(0), _bvval(s.arg(1).as_long()), _bvval(s.arg(2).as_long()))
                return az, bz, True
            raise Undecided("mixing Int-sorted and BV-sorted symbolic values")
        bz = _bvval(s.as_long())
    return az, bz, True


def _side(name, cond):
    """Side condition of the BV back end (no overflow): must be provable from the stated magnitude
    precondition of the inputs; an unprovable one makes the case UNDECIDED, never a violation."""
    c = Ctx.cur
    r = c._check(z3.Not(cond))
    if r != z3.unsat:
        raise Undecided("BV back end: %s not provable (result may exceed %d bits)" % (name, BVW))


class SymBool:
    __slots__ = ("z",)

    def __init__(self, z):
        self.z = z

    def __bool__(self):
        return Ctx.cur.decide(self.z)

    def _i(self):
        return SymInt(z3.If(self.z, 1, 0))

    def __and__(self, o):
        if isinstance(o, (SymBool, bool)):
            return SymBool(z3.And(self.z, tobool(o)))
        return self._i() & o
    __rand__ = __and__

    def __or__(self, o):
        if isinstance(o, (SymBool, bool)):
            return SymBool(z3.Or(self.z, tobool(o)))
        return self._i() | o
    __ror__ = __or__

    def __xor__(self, o):
        if isinstance(o, (SymBool, bool)):
            return SymBool(z3.Xor(self.z, tobool(o)))
        return self._i() ^ o
    __rxor__ = __xor__

    def __invert__(self):
        return ~self._i()

    def __eq__(self, o):
        if isinstance(o, (SymBool, bool)):
            return SymBool(self.z == tobool(o))
        return self._i() == o

    def __ne__(self, o):
        if isinstance(o, (SymBool, bool)):
            return SymBool(self.z != tobool(o))
        return self._i() != o

    def __int__(self):
        return 1 if bool(self) else 0

    def __index__(self):
        return 1 if bool(self) else 0

    def __add__(self, o):
        return self._i() + o
    __radd__ = __add__

    def __hash__(self):
        return id(self)

    def __repr__(self):
        return "SymBool(%s)" % z3.simplify(self.z)


def _runs(m):
    """Runs of one-bits of a non-negative int: list of (lo, n)."""
    out = []
    i = 0
    while m:
        if m & 1:
            j = i
            n = 0
            while m & 1:
                m >>= 1
                n += 1
                i += 1
            out.append((j, n))
        else:
            m >>= 1
            i += 1
    return out


def _and_const(xz, m):
    """z3 Int term of (x & m) for concrete m of any sign, x mathematical int."""
    if m >= 0:
        terms = []
        for lo, n in _runs(m):
            t = (xz / (1 << lo)) % (1 << n)      # z3 Int div is floor for positive divisor
            terms.append(t * (1 << lo) if lo else t)
        if not terms:
            return z3.IntVal(0)
        return z3.Sum(terms) if len(terms) > 1 else terms[0]
    # m negative: m = ~k with k >= 0 ; x & ~k = x - (x & k)
    k = ~m
    return xz - _and_const(xz, k)


class SymInt:
    """Proxy for a Python int.  self.z is a z3 Int term (mathematical back end) or a z3 BitVec(BVW) term
    (two's-complement back end, exact while no operation overflows BVW bits: proved as side condition)."""

    def __init__(self, z):
        self.z = z

    # -- conversions
    def __int__(self):
        return self          # only reached through explicit .__int__() calls of the real code

    def _conc(self):
        zs = z3.simplify(self.z)
        if z3.is_int_value(zs):
            return zs.as_long()
        if z3.is_bv_value(zs):
            return zs.as_signed_long()
        return None

    def __index__(self):
        return Ctx.cur.concretize(self)

    def __bool__(self):
        return Ctx.cur.decide(self.z != 0)

    def __hash__(self):
        v = self._conc()
        if v is not None:
            return hash(v)
        return hash(Ctx.cur.concretize(self))

    def __repr__(self):
        return "SymInt(%s)" % z3.simplify(self.z)

    __str__ = __repr__

    def __format__(self, spec):
        return repr(self)

    # -- arithmetic
    def _ar(self, o, op, swap=False):
        if isinstance(o, (SymReal, float)):
            l = SymReal(z3.ToReal(self.z))
            return {'+': l + o, '-': (o - l) if swap else (l - o), '*': l * o}[op]
        try:
            a, b, bv = pair(self, o)
        except TypeError:
            return NotImplemented
        if swap:
            a, b = b, a
        if op == '+':
            if bv:
                _side("add", z3.And(z3.BVAddNoOverflow(a, b, True), z3.BVAddNoUnderflow(a, b)))
            return SymInt(a + b)
        if op == '-':
            if bv:
                _side("sub", z3.And(z3.BVSubNoOverflow(a, b), z3.BVSubNoUnderflow(a, b, True)))
            return SymInt(a - b)
        if bv:
            _side("mul", z3.And(z3.BVMulNoOverflow(a, b, True), z3.BVMulNoUnderflow(a, b)))
        return SymInt(a * b)

    def __add__(self, o):
        return self._ar(o, '+')
    __radd__ = __add__

    def __sub__(self, o):
        return self._ar(o, '-')

    def __rsub__(self, o):
        return self._ar(o, '-', True)

    def __mul__(self, o):
        return self._ar(o, '*')
    __rmul__ = __mul__

    def __neg__(self):
        return 0 - self

    def __pos__(self):
        return self

    def __abs__(self):
        return SymInt(z3.If(self.z >= 0, self.z, (0 - self).z))

    def __invert__(self):
        if z3.is_bv(self.z):
            return SymInt(~self.z)
        return SymInt(-self.z - 1)

    @staticmethod
    def _floordiv(a, b, bv):
        if bv:
            bs = z3.simplify(b)
            if z3.is_bv_value(bs) and bs.as_signed_long() == 0:
                raise ZeroDivisionError("integer division or modulo by zero")
            if not z3.is_bv_value(bs) and Ctx.cur.decide(b == 0):
                raise ZeroDivisionError("integer division or modulo by zero")
            q = z3.SDiv(a, b) if hasattr(z3, "SDiv") else a / b      # truncating signed division
            r = z3.SRem(a, b)
            adj = z3.And(r != 0, (r < 0) != (b < 0))
            return z3.If(adj, q - 1, q)
        if z3.is_int_value(z3.simplify(b)):
            bv_ = z3.simplify(b).as_long()
            if bv_ > 0:
                return a / b
            if bv_ < 0:
                return (-a) / (-b)
            raise ZeroDivisionError("integer division or modulo by zero")
        if Ctx.cur.decide(b == 0):
            raise ZeroDivisionError("integer division or modulo by zero")
        return z3.If(b > 0, a / b, (-a) / (-b))

    def __floordiv__(self, o):
        a, b, bv = pair(self, o)
        return SymInt(self._floordiv(a, b, bv))

    def __rfloordiv__(self, o):
        b, a, bv = pair(self, o)
        return SymInt(self._floordiv(a, b, bv))

    def __mod__(self, o):
        a, b, bv = pair(self, o)
        q = self._floordiv(a, b, bv)
        return SymInt(a - b * q)

    def __rmod__(self, o):
        b, a, bv = pair(self, o)
        q = self._floordiv(a, b, bv)
        return SymInt(a - b * q)

    def __truediv__(self, o):
        return SymReal(z3.ToReal(self.z)) / o

    def __rtruediv__(self, o):
        return SymReal(z3.ToReal(toint(o))) / self

    def __pow__(self, o):
        if is_conc(o) and 0 <= o <= 8:
            r = 1
            for _ in range(o):
                r = self * r
            return r
        return NotImplemented

    def __rpow__(self, o):
        k = Ctx.cur.concretize(self)
        return o ** k

    # -- shifts
    def __lshift__(self, o):
        k = Ctx.cur.concretize(o) if isinstance(o, SymInt) else int(o)
        if k < 0:
            raise ValueError("negative shift count")
        if z3.is_bv(self.z):
            r = self.z << k
            _side("shl", (r >> k) == self.z)
            return SymInt(r)
        return SymInt(self.z * (1 << k))

    def __rlshift__(self, o):
        k = Ctx.cur.concretize(self)
        return o << k

    def __rshift__(self, o):
        k = Ctx.cur.concretize(o) if isinstance(o, SymInt) else int(o)
        if k < 0:
            raise ValueError("negative shift count")
        if z3.is_bv(self.z):
            return SymInt(self.z >> k)        # arithmetic shift = floor division by 2**k
        return SymInt(self.z / (1 << k))

    def __rrshift__(self, o):
        k = Ctx.cur.concretize(self)
        return o >> k

    # -- bit operations
    def _bit(self, op, o):
        if not isinstance(o, (SymInt, SymBool, int)):
            return NotImplemented
        a, b, bv = pair(self, o)
        if bv:
            return SymInt({'&': a & b, '|': a | b, '^': a ^ b}[op])
        bs = z3.simplify(b)
        as_ = z3.simplify(a)
        if z3.is_int_value(bs):
            x, m = a, bs.as_long()
        elif z3.is_int_value(as_):
            x, m = b, as_.as_long()
        else:
            raise Undecided("bit operation on two symbolic mathematical ints: use the BV back end for this contract")
        t = _and_const(x, m)
        if op == '&':
            return SymInt(t)
        if op == '|':
            return SymInt(x + m - t)
        return SymInt(x + m - 2 * t)

    def __and__(self, o):
        return self._bit('&', o)
    __rand__ = __and__

    def __or__(self, o):
        return self._bit('|', o)
    __ror__ = __or__

    def __xor__(self, o):
        return self._bit('^', o)
    __rxor__ = __xor__

    # -- comparisons
    def _cmp(self, o, f):
        if isinstance(o, (SymReal, float)):
            return SymBool(f(z3.ToReal(self.z), SymReal.lift(o)))
        try:
            a, b, bv = pair(self, o)
        except TypeError:
            return NotImplemented
        return SymBool(f(a, b))

    def __eq__(self, o):
        return self._cmp(o, lambda a, b: a == b)

    def __ne__(self, o):
        return self._cmp(o, lambda a, b: a != b)

    def __lt__(self, o):
        return self._cmp(o, lambda a, b: a < b)

    def __le__(self, o):
        return self._cmp(o, lambda a, b: a <= b)

    def __gt__(self, o):
        return self._cmp(o, lambda a, b: a > b)

    def __ge__(self, o):
        return self._cmp(o, lambda a, b: a >= b)


class SymReal:
    """Quotient of two ints (Python float stands for the exact rational: assumption `real-division`)."""

    def __init__(self, z):
        self.z = z
        Ctx.cur.assumptions.add("float division a/b treated as exact rational (exact in CPython only below 2**53)")

    @staticmethod
    def lift(o):
        if isinstance(o, SymReal):
            return o.z
        if isinstance(o, SymInt):
            return z3.ToReal(o.z)
        if isinstance(o, float):
            return z3.RealVal(repr(o))
        return z3.ToReal(toint(o))

    def __truediv__(self, o):
        d = SymReal.lift(o)
        ds = z3.simplify(d)
        if z3.is_rational_value(ds):
            if ds.numerator_as_long() == 0:
                raise ZeroDivisionError("division by zero")
        elif Ctx.cur.decide(d == 0):
            raise ZeroDivisionError("division by zero")
        return SymReal(self.z / d)

    def __rtruediv__(self, o):
        return SymReal(SymReal.lift(o)) / self

    def __add__(self, o):
        return SymReal(self.z + SymReal.lift(o))
    __radd__ = __add__

    def __sub__(self, o):
        return SymReal(self.z - SymReal.lift(o))

    def __rsub__(self, o):
        return SymReal(SymReal.lift(o) - self.z)

    def __mul__(self, o):
        return SymReal(self.z * SymReal.lift(o))
    __rmul__ = __mul__

    def __int__(self):
        # truncation toward zero
        fl = z3.ToInt(self.z)
        return SymInt(z3.If(self.z >= 0, fl, z3.If(z3.ToReal(fl) == self.z, fl, fl + 1)))

    def _cmp(self, o, f):
        return SymBool(f(self.z, SymReal.lift(o)))

    def __eq__(self, o):
        return self._cmp(o, lambda a, b: a == b)

    def __ne__(self, o):
        return self._cmp(o, lambda a, b: a != b)

    def __lt__(self, o):
        return self._cmp(o, lambda a, b: a < b)

    def __le__(self, o):
        return self._cmp(o, lambda a, b: a <= b)

    def __gt__(self, o):
        return self._cmp(o, lambda a, b: a > b)

    def __ge__(self, o):
        return self._cmp(o, lambda a, b: a >= b)

    def __hash__(self):
        return id(self)

    def __repr__(self):
        return "SymReal(%s)" % self.z


# ---- spec-side helpers (never fork) ----------------------------------------------------------------
def And(*a):
    return SymBool(z3.And(*[tobool(x) for x in a])) if a else SymBool(z3.BoolVal(True))


def Or(*a):
    return SymBool(z3.Or(*[tobool(x) for x in a])) if a else SymBool(z3.BoolVal(False))


def Not(a):
    return SymBool(z3.Not(tobool(a)))


def Implies(a, b):
    return SymBool(z3.Implies(tobool(a), tobool(b)))


def Ite(c, a, b):
    az, bz, _ = pair(a, b)
    return SymInt(z3.If(tobool(c), az, bz))


def Iff(a, b):
    return SymBool(tobool(a) == tobool(b))


def lift(v):
    """SymInt view of an int-like value (so spec expressions can use Python operators on it)."""
    if isinstance(v, SymInt):
        return v
    if isinstance(v, SymBool):
        return v._i()
    return SymInt(z3.IntVal(int(v)))


def wrap(v, w, signed):
    """R-VAL: v mod 2**w, re-interpreted as two's complement when signed."""
    u = lift(v) & ((1 << w) - 1)
    if signed:
        return Ite(u >= (1 << (w - 1)), u - (1 << w), u)
    return u


# ---- explorer --------------------------------------------------------------------------------------
class PathResult:
    __slots__ = ("decisions", "obligations", "exc", "result", "assumptions", "solver_s", "ghost", "aborted", "feasible_end")


def explore(body, max_paths=20000, timeout_ms=20000, backend="int"):
    """Runs body(ctx) once per feasible path.  body creates its symbolic inputs through ctx, calls the
    real code and states obligations with ctx.prove().  Yields a PathResult per path."""
    work = [[]]
    n = 0
    while work:
        prefix = work.pop()
        n += 1
        if n > max_paths:
            raise Undecided("more than %d paths" % max_paths)
        c = Ctx(prefix, timeout_ms, backend)
        Ctx.cur = c
        pr = PathResult()
        pr.exc = None
        pr.result = None
        pr.aborted = False
        pr.feasible_end = True
        try:
            pr.result = body(c)
            # vacuity guard: the path condition (all assumed preconditions included) must still be satisfiable at the end
            pr.feasible_end = (not c.pc) or c._check() == z3.sat
        except PathAbort:
            pr.aborted = True
        finally:
            Ctx.cur = None
        work.extend(c.alts)
        pr.decisions = c.decisions
        pr.obligations = c.obligations
        pr.assumptions = c.assumptions
        pr.solver_s = c.solver_s
        pr.ghost = c.ghost
        yield pr
