"""
C04 defect 7: negative values stored by the user in a signed (non-random)
list are seen as large positive values when a foreach body is elaborated.

Clause: "After a successful call every foreach body holds for every index and
element of the final list."  "... assigning ... afterwards acts on exactly
that exposed list."

    with vsc.foreach(self.l, idx=True) as i:
        with vsc.if_then(self.l[i] < 0):
            self.r[i] == 1
        with vsc.else_then:
            self.r[i] == 2
"""
import sys
import vsc


@vsc.randobj
class C(object):
    def __init__(self):
        self.l = vsc.list_t(vsc.int8_t())
        self.r = vsc.rand_list_t(vsc.uint8_t(), sz=3)

    @vsc.constraint
    def c(self):
        with vsc.foreach(self.l, idx=True) as i:
            with vsc.if_then(self.l[i] < 0):
                self.r[i] == 1
            with vsc.else_then:
                self.r[i] == 2


def check(c, tag):
    lv = [int(c.l[i]) for i in range(len(c.l))]
    rv = [int(x) for x in c.r]
    exp = [1 if v < 0 else 2 for v in lv]
    print("expected: [%s] l=%s -> r=%s" % (tag, lv, exp))
    print("got     : [%s] l=%s -> r=%s" % (tag, lv, rv))
    return rv == exp


def main():
    c = C()
    c.l.extend([-1, 5, -100])
    ok = True
    c.randomize()
    ok &= check(c, "after extend([-1, 5, -100])")
    c.l[1] = -3
    c.randomize()
    ok &= check(c, "after l[1] = -3")
    if not ok:
        print("DEFECT PRESENT")
        return 1
    return 0


if __name__ == "__main__":
    sys.exit(main())
