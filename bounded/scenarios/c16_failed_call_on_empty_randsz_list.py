"""C16 demo: a failed randomize call must leave nothing behind.

Exits 0 when every observation after a failed call equals the one made
on a pristine twin that never saw the failed call, 1 otherwise."""
import sys
import vsc


@vsc.randobj
class Pkt(object):
    def __init__(self):
        self.x = vsc.rand_uint8_t()
        self.n = vsc.uint8_t(0)
        self.l = vsc.randsz_list_t(vsc.uint8_t())

    @vsc.constraint
    def size_c(self):
        self.l.size in vsc.rangelist(vsc.rng(1, 6))
        self.x < 100


def fail_once(o):
    """One call that is made unsatisfiable"""
    try:
        with o.randomize_with() as it:
            it.x == 1
            it.x == 2
    except vsc.SolveFailure:
        return True
    return False


def observe(o):
    """What a user can see of the list without randomizing it"""
    # (element values are not compared: a failed call may legitimately
    # have consumed random state, see notes.txt)
    return (len(o.l), int(o.l.size))


bad = 0

# 1. fresh object (list empty when the call starts)
victim = Pkt()
twin = Pkt()
assert fail_once(victim), "the call was expected to fail"
print("fresh    : victim", observe(victim), " twin", observe(twin))
if observe(victim) != observe(twin):
    bad += 1

# 2. list emptied by the user after a successful call, for several seeds
for seed in range(10):
    victim = Pkt()
    twin = Pkt()
    victim.set_randstate(vsc.RandState.mkFromSeed(seed))
    twin.set_randstate(vsc.RandState.mkFromSeed(seed))
    victim.randomize()
    twin.randomize()
    victim.l.clear()
    twin.l.clear()
    assert fail_once(victim)
    ov, ot = observe(victim), observe(twin)
    if ov != ot:
        bad += 1
        print("seed %d: victim %s twin %s" % (seed, ov, ot))

    # later use that reads the list as state: only x is randomized
    for o in (victim, twin):
        with vsc.raw_mode():
            xf = o.x
        with vsc.randomize_with(xf):
            o.x == o.l.size
    if victim.x != twin.x:
        bad += 1
        print("seed %d: later call x==l.size gives %d, twin %d" % (seed, victim.x, twin.x))

# 3. control: list not empty when the failing call starts
victim = Pkt()
twin = Pkt()
for o in (victim, twin):
    o.l.clear()
    o.l.append(7)
    o.l.append(9)
assert fail_once(victim)
print("non-empty: victim", observe(victim), " twin", observe(twin))
if observe(victim) != observe(twin):
    bad += 1

print("differences:", bad)
sys.exit(1 if bad else 0)
