#!/usr/bin/env python
# Demo for property C12: instance and type coverage aggregate consistently.
#
# A reference model (plain Python dictionaries) tracks, for every covergroup
# instance, how often each bin was hit.  Type-level hits are the bin-wise sum
# over the instances of the same shape.  Coverage of a coverpoint is the share
# of bins whose hit count reached at_least; covergroup coverage is the weighted
# average over the coverpoints.  After every sample the library's
# get_inst_coverage() / get_coverage() are compared with the reference.
#
# Exit status: 0 = everything matched, 1 = mismatch observed.
import contextlib
import io
import random
import sys

import vsc


def quiet(fn):
    # the library prints debug text from get_inst_coverage(); hide it
    with contextlib.redirect_stdout(io.StringIO()):
        return fn()


_uid = [0]


def make_cg(at_least, w1, w2):
    # every run uses a covergroup class with a fresh name, so that runs do
    # not share type-level data through the global registry
    def __init__(self, n):
        self.with_sample(dict(a=vsc.uint8_t(), b=vsc.uint8_t()))
        self.options.at_least = at_least
        self.cp_a = vsc.coverpoint(self.a, options=dict(weight=w1), bins={
            "a": vsc.bin_array([], [0, n - 1])})
        self.cp_b = vsc.coverpoint(self.b, options=dict(weight=w2), bins={
            "b": vsc.bin_array([], [0, 3])})
    _uid[0] += 1
    cls = type("my_cg_%d" % _uid[0], (object,), {"__init__": __init__})
    return vsc.covergroup(cls)


def ref_cov(hits_a, hits_b, n, at_least, w1, w2):
    ca = 100.0 * sum(1 for i in range(n) if hits_a.get(i, 0) >= at_least) / n
    cb = 100.0 * sum(1 for i in range(4) if hits_b.get(i, 0) >= at_least) / 4
    return (w1 * ca + w2 * cb) / (w1 + w2)


def run(seed, at_least, w1, w2, shapes):
    """shapes: list of 'n' constructor parameters, one per instance (creation order)"""
    r = random.Random(seed)
    cls = make_cg(at_least, w1, w2)
    insts = [cls(n) for n in shapes]
    hits = [({}, {}) for _ in shapes]
    problems = []
    last_type = {}
    for step in range(40):
        k = r.randrange(len(insts))
        n = shapes[k]
        a = r.randrange(n)
        b = r.randrange(4)
        insts[k].sample(a, b)
        hits[k][0][a] = hits[k][0].get(a, 0) + 1
        hits[k][1][b] = hits[k][1].get(b, 0) + 1

        for j, cg in enumerate(insts):
            nj = shapes[j]
            exp_i = ref_cov(hits[j][0], hits[j][1], nj, at_least, w1, w2)
            got_i = quiet(cg.get_inst_coverage)
            # type = bin-wise sum over the instances with the same shape
            ta, tb = {}, {}
            for jj in range(len(insts)):
                if shapes[jj] == nj:
                    for key, v in hits[jj][0].items():
                        ta[key] = ta.get(key, 0) + v
                    for key, v in hits[jj][1].items():
                        tb[key] = tb.get(key, 0) + v
            exp_t = ref_cov(ta, tb, nj, at_least, w1, w2)
            got_t = quiet(cg.get_coverage)
            if abs(got_i - exp_i) > 1e-3:
                problems.append("step %d inst %d: inst coverage %s, expected %.4f" % (
                    step, j, got_i, exp_i))
            if abs(got_t - exp_t) > 1e-3:
                problems.append("step %d inst %d: TYPE coverage %s, expected %.4f" % (
                    step, j, got_t, exp_t))
            if not (0.0 <= got_t <= 100.0) or got_t + 1e-9 < last_type.get(nj, 0.0):
                problems.append("step %d: type coverage %s out of range / decreased" % (step, got_t))
            last_type[nj] = got_t
    return problems


def main():
    total = 0
    bad = 0
    first = None
    for at_least in (1, 2, 3):
        for (w1, w2) in ((1, 1), (2, 1), (1, 0)):
            for shapes in ([4], [4, 4], [4, 2, 4], [2, 4, 4, 2]):
                for seed in range(3):
                    p = run(seed, at_least, w1, w2, shapes)
                    total += 1
                    if p:
                        bad += 1
                        if first is None:
                            first = (at_least, w1, w2, shapes, seed, p[0], len(p))
    print("configurations run: %d, with mismatches: %d" % (total, bad))
    if first is not None:
        print("first mismatch: at_least=%d weights=(%d,%d) shapes=%s seed=%d: %s (%d mismatches in this run)" % first)
        print("FAIL: type/instance coverage does not follow the bin-wise-sum / at_least / weight rule")
        return 1
    print("OK: instance and type coverage match the reference model everywhere")
    return 0


if __name__ == "__main__":
    sys.exit(main())
