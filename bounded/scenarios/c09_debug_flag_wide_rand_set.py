"""C09 demo: the values an object produces must not depend on the
diagnostic settings (debug) of the randomize calls.

Two objects of one class get the same seed and the same call sequence;
the only difference is that one of them is randomized with debug=1
(its trace is swallowed). Exit 0 if the sequences agree, 1 otherwise.
"""
import contextlib
import io
import sys

import vsc


@vsc.randobj
class Pkt(object):

    def __init__(self):
        self.a = vsc.rand_uint8_t()
        self.b = vsc.rand_uint8_t()
        self.c = vsc.rand_uint8_t()
        self.d = vsc.rand_uint8_t()
        self.e = vsc.rand_uint8_t()
        self.f = vsc.rand_uint8_t()

    @vsc.constraint
    def link_c(self):
        # One rand set holding six fields
        self.a + self.b + self.c + self.d + self.e + self.f < 600


def run(seed, debug, n=6, use_with=False):
    o = Pkt()
    o.set_randstate(vsc.RandState.mkFromSeed(seed))
    vals = []
    sink = io.StringIO()
    for _ in range(n):
        with contextlib.redirect_stdout(sink):
            if use_with:
                with o.randomize_with(debug=debug) as it:
                    it.a != it.b
            else:
                o.randomize(debug=debug)
        vals.append((o.a, o.b, o.c, o.d, o.e, o.f))
    return vals


def main():
    bad = 0
    total = 0
    for use_with in (False, True):
        for seed in range(1, 9):
            ref = run(seed, 0, use_with=use_with)
            rep = run(seed, 0, use_with=use_with)
            dbg = run(seed, 1, use_with=use_with)
            total += 1
            if ref != rep:
                print("seed %d with=%s: two plain runs differ (unexpected)" % (seed, use_with))
                bad += 1
            elif ref != dbg:
                i = next(i for i in range(len(ref)) if ref[i] != dbg[i])
                print("seed %d with=%s: debug=1 changes the values, first at call %d: %s vs %s" % (
                    seed, use_with, i, ref[i], dbg[i]))
                bad += 1
    print("%d of %d seed/call-style combinations depend on the debug flag" % (bad, total))
    if bad:
        print("FAIL: sequence depends on a diagnostic setting")
        return 1
    print("OK: sequence independent of debug")
    return 0


if __name__ == "__main__":
    sys.exit(main())
