#!/usr/bin/env python
"""C01 defect 1: a relational constraint whose LEFT operand is a compound
expression and whose RIGHT operand is a list element (self.l[k]) is built with
the operator mirrored but the operands in place: (a+1) < l[0] is solved as
(a+1) > l[0].

Clause: "the values ... satisfy every enabled hard constraint ... under the
documented SystemVerilog-style meaning of the operators (comparison, ...)".
"""
import sys
import vsc


@vsc.randobj
class Item(object):
    def __init__(self):
        self.a = vsc.rand_uint8_t()
        self.l = vsc.rand_list_t(vsc.uint8_t(), 4)

    @vsc.constraint
    def c(self):
        # compound expression  <  list element
        (self.a + 1) < self.l[0]
        # the same shape inside a foreach: strictly increasing by more than 3
        with vsc.foreach(self.l, idx=True) as i:
            with vsc.if_then(i > 0):
                (self.l[i - 1] + 3) < self.l[i]


def main():
    bad = []
    n = 20
    for seed in range(n):
        it = Item()
        it.set_randstate(vsc.RandState.mkFromSeed(seed))
        it.randomize()
        a = it.a
        l = [int(x) for x in it.l]
        ok = (a + 1) < l[0] and all(l[i - 1] + 3 < l[i] for i in range(1, 4))
        if not ok:
            bad.append((seed, a, l))

    print("constraints : (a + 1) < l[0] ;  foreach i>0: (l[i-1] + 3) < l[i]")
    print("expected    : every returned (a, l) satisfies them (a+1 < l[0], l increasing in steps > 3)")
    if bad:
        print("got         : %d of %d calls returned values that violate them, e.g." % (len(bad), n))
        for seed, a, l in bad[:5]:
            print("              seed=%d a=%d l=%s   (a+1 < l[0] is %s)" % (seed, a, l, (a + 1) < l[0]))
        print("DEFECT PRESENT")
        return 1
    print("got         : all %d calls satisfy the constraints" % n)
    return 0


if __name__ == "__main__":
    sys.exit(main())
