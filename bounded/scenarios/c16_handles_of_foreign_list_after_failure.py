# C16 defect 2: a call that ends with SolveFailure leaves solver handles on
# the elements / size of a list that belongs to an object that is not one of
# the roots of the call. Later calls that reference the list raise
# BoolectorException ("belongs to different Boolector instance").
import sys
import vsc


@vsc.randobj
class Cfg:
    def __init__(self):
        self.table = vsc.list_t(vsc.uint8_t(), init=[3, 5, 7, 9])


@vsc.randobj
class Item:
    def __init__(self):
        self.a = vsc.rand_uint8_t()


cfg = Cfg()     # configuration object, referenced by inline constraints only
o = Item()

# Sanity: the reference works in a session without failure
with o.randomize_with() as it:
    it.a == cfg.table[2]
assert o.a == 7

# The failing call: a == table[1] (5) and a > 200 -> SolveFailure, as it should
first = None
try:
    with o.randomize_with() as it:
        it.a == cfg.table[1]
        it.a > 200
    first = "no exception"
except vsc.SolveFailure:
    first = "SolveFailure"

# A later, satisfiable call
later = None
try:
    with o.randomize_with() as it:
        it.a == cfg.table[2]
    later = "ok, a=%d" % o.a
except Exception as e:
    later = "%s: %s" % (type(e).__name__, str(e).strip().splitlines()[-1])

print("expected: failing call -> SolveFailure ; later call -> ok, a=7")
print("got     : failing call -> %s ; later call -> %s" % (first, later))

if first == "SolveFailure" and later == "ok, a=7":
    print("PASS")
    sys.exit(0)
else:
    print("DEFECT: the failed call left solver handles on cfg.table (a list outside "
          "the roots of the call); the later call mixes them with its own solver")
    sys.exit(1)
