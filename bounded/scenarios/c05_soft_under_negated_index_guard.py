#!/usr/bin/env python
"""C05 defect 6 (generic root cause, shows through soft constraints as well):
inside foreach, an if/else guard that can be evaluated at expansion time and
uses `~` (logical not) is folded to the *opposite* branch, so the soft
constraint of the branch whose guard does not hold is applied.

Property clause: "a soft constraint nested under if/else or implies applies
only when its guard holds".
"""
import sys
import vsc


@vsc.randobj
class C(object):
    def __init__(self):
        self.l = vsc.rand_list_t(vsc.uint8_t(), sz=4)

    @vsc.constraint
    def c(self):
        with vsc.foreach(self.l, idx=True) as i:
            with vsc.if_then(~(i == 0)):
                vsc.soft(self.l[i] == 10)
            with vsc.else_then:
                vsc.soft(self.l[i] == 12)


def main():
    c = C()
    c.randomize()
    expected = [12, 10, 10, 10]
    got = list(c.l)
    print("expected: %s" % expected)
    print("got     : %s" % got)
    if got != expected:
        print("DEFECT PRESENT")
        return 1
    print("ok")
    return 0


if __name__ == "__main__":
    sys.exit(main())
