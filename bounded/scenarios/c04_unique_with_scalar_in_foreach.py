"""
C04 defect 1: vsc.unique() inside a foreach body is not expanded per index.

Clause: "After a successful call every foreach body holds for every index and
element of the final list, and ... unique ... constraints hold when evaluated
over exactly the elements the list exposes."

    with vsc.foreach(self.l) as it:
        vsc.unique(it, self.a)          # i.e. every element differs from 'a'

With 1-bit elements and a 1-bit 'a' the only solutions are
l == [1-a, 1-a, ..., 1-a].
"""
import sys
import vsc


@vsc.randobj
class C(object):
    def __init__(self):
        self.l = vsc.rand_list_t(vsc.bit_t(1), sz=8)
        self.a = vsc.rand_bit_t(1)

    @vsc.constraint
    def c(self):
        with vsc.foreach(self.l) as it:
            vsc.unique(it, self.a)


def main():
    c = C()
    n_calls = 20
    bad = []
    for k in range(n_calls):
        c.randomize()
        vals = [int(x) for x in c.l]
        a = int(c.a)
        viol = [i for i, v in enumerate(vals) if v == a]
        if viol:
            bad.append((k, a, vals, viol))

    print("expected: after every successful randomize(), l[i] != a for every index i")
    if bad:
        k, a, vals, viol = bad[0]
        print("got     : %d of %d calls violate the foreach body, e.g. call %d: a=%d l=%s "
              "(indices %s equal a)" % (len(bad), n_calls, k, a, vals, viol))
        # Which indices are ever honoured?
        always_ok = [i for i in range(8) if all(i not in b[3] for b in bad)]
        print("          indices never violated: %s (only the last index is constrained)" % always_ok)
        print("DEFECT PRESENT")
        return 1
    print("got     : all calls satisfy the foreach body")
    return 0


if __name__ == "__main__":
    sys.exit(main())
