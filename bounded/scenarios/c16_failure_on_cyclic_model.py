"""C16: "After any API call ends - normally, with SolveFailure ... Every later construction or randomization therefore behaves
exactly as in a session where the failed call never happened": a failed call on an object graph that contains a cycle (a list
element that refers back to the owner) ends with SolveFailure, and the next call works."""
import vsc, sys
@vsc.randobj
class Node(object):
    def __init__(self):
        self.a = vsc.rand_bit_t(8)
        self.others = vsc.rand_list_t(vsc.attr(Holder(None)) if False else Holder(None))
@vsc.randobj
class Holder(object):
    def __init__(self, ptr):
        if ptr is not None:
            self.ptr = vsc.rand_attr(ptr)
        self.k = vsc.rand_bit_t(4)
n = Node()
h = Holder(n)
n.others.append(h)          # n -> others -> h -> ptr -> n  (a cycle in the model graph)
n.randomize()
try:
    with n.randomize_with() as it:
        it.a > 300            # unsatisfiable for an 8-bit field -> SolveFailure on a cyclic model
    print("no failure?"); sys.exit(1)
except vsc.SolveFailure:
    pass
n.randomize()
print("ok", int(n.a))
