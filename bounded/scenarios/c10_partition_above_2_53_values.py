#!/usr/bin/env python
# C10 defect 2: bin partitioning uses float division, so for value sets larger
# than 2**53 the per-bin size is wrong (bins are not equal-size) and in common
# configurations the covergroup cannot even be built (IndexError).
import sys
import traceback
import vsc

N = 1 << 64
bad = False

# --- (a) silent mis-partitioning: 64-bit auto bins, auto_bin_max=3
@vsc.covergroup
class cg_u64_3(object):
    def __init__(self):
        self.with_sample(dict(a=vsc.uint64_t()))
        self.cp = vsc.coverpoint(self.a, options=dict(auto_bin_max=3))

sz = N // 3     # 6148914691236517205 values per bin, remainder (1) in the last
samples = [0, sz - 1, sz, 2 * sz - 1, 2 * sz, N - 1]
exp = [2, 2, 2]
try:
    c = cg_u64_3()
    for s in samples:
        c.sample(s)
    m = c.cp.get_model()
    got = [m.get_bin_hits(i) for i in range(m.get_n_bins())]
except Exception:
    traceback.print_exc()
    got = "exception"
print("(a) uint64 auto_bin_max=3: bins of %d values; samples at both ends of each bin" % sz)
print("    expected %s got %s" % (exp, got))
if got != exp:
    bad = True

# --- (b) crash: 64-bit auto bins (default auto_bin_max=64) + one ignored value
@vsc.covergroup
class cg_u64_ign(object):
    def __init__(self):
        self.with_sample(dict(a=vsc.uint64_t()))
        self.cp = vsc.coverpoint(self.a, ignore_bins=dict(zero=vsc.bin(0)))

# 2**64-1 values in 64 bins: 63 bins of 2**58-1 values, last bin has the rest
vpb = (N - 1) // 64
exp_b = {0: 1, 1: 1, 63: 1}
try:
    c = cg_u64_ign()
    for s in (1, 1 + vpb, N - 1, 0):
        c.sample(s)
    m = c.cp.get_model()
    got_b = {i: m.get_bin_hits(i) for i in range(m.get_n_bins()) if m.get_bin_hits(i)}
    got_ign = m.get_ignore_bin_hits(0)
    print("(b) uint64 auto bins + ignore_bins(0): expected %s ignore=1, got %s ignore=%d" % (exp_b, got_b, got_ign))
    if got_b != exp_b or got_ign != 1:
        bad = True
except Exception as e:
    traceback.print_exc(limit=-1)
    print("(b) uint64 auto bins + ignore_bins(0): expected a 64-bin coverpoint, got %s: %s" % (type(e).__name__, e))
    bad = True

if bad:
    print("DEFECT")
    sys.exit(1)
print("OK")
sys.exit(0)
