#!/usr/bin/env python
"""C08 defect 5: an object-list element selected by a RANDOM index field
(self.l[self.idx].x) is bound, without any diagnostic, to the element selected
by the value idx had BEFORE the call; idx itself is then solved independently,
so after the call l[idx].x does not satisfy the constraint.

Clause: "each reference denotes the field of the specific sub-object instance
named by its attribute path or index".
"""
import sys
import vsc
from vsc.model.solve_failure import SolveFailure


@vsc.randobj
class Elem(object):
    def __init__(self):
        self.x = vsc.rand_uint8_t()


@vsc.randobj
class Top(object):
    def __init__(self):
        self.idx = vsc.rand_uint8_t()       # initial value 0
        self.l = vsc.rand_list_t(Elem(), 4)

    @vsc.constraint
    def c(self):
        self.idx.inside(vsc.rangelist((1, 3)))
        self.l[self.idx].x == 200
        with vsc.foreach(self.l) as it:
            it.x.inside(vsc.rangelist(200, (0, 10)))


def main():
    bad = []
    stale0 = 0
    N = 40
    fails = 0
    for n in range(N):
        t = Top()           # fresh object: idx holds 0 before the call
        try:
            t.randomize()
        except SolveFailure:
            # the constraints are satisfiable (e.g. idx=1, l[1].x=200)
            fails += 1
            continue
        except Exception as e:
            # An explicit rejection of a random index would be acceptable
            print("library rejects the random index explicitly: %s" % e)
            return 0
        if t.l[0].x == 200:
            stale0 += 1
        if t.l[t.idx].x != 200:
            bad.append((t.idx, [e.x for e in t.l]))
    print("expected: after every call l[idx].x == 200 (idx in 1..3)")
    if fails:
        print("got     : %d/%d calls raised SolveFailure on a satisfiable problem" % (fails, N))
    if bad:
        print("got     : %d/%d fresh objects violate it, e.g. idx=%d x=%s" % (
            len(bad), N, bad[0][0], bad[0][1]))
        print("          l[0].x == 200 in %d/%d calls (element of the pre-call idx value 0)" % (stale0, N))
    if stale0 == N:
        print("got     : l[0].x == 200 in ALL %d calls although nothing names l[0] (idx is never 0)" % N)
    if bad or fails or stale0 == N:
        print("DEFECT PRESENT")
        return 1
    print("got     : all calls conform")
    return 0


if __name__ == "__main__":
    try:
        rc = main()
    except Exception as e:
        print("unexpected exception: %s: %s" % (type(e).__name__, e))
        rc = 1
    sys.exit(rc)
