"""C09 defect 4: with solve_fail_debug=1 an unsatisfiable call that involves a
part-select compared with a constant does not end with vsc.SolveFailure but with a
TypeError raised inside the diagnostics code.  A program that handles SolveFailure
therefore behaves differently depending on a diagnostic setting.

Property clause: "results depend only on seed, model and call history ... identical
across ... diagnostic settings (debug, solve-failure debug, source-info capture)".
"""
import sys, io, contextlib
import vsc


@vsc.randobj
class Item:
    def __init__(self):
        self.c = vsc.rand_bit_t(20)
        self.a = vsc.rand_uint8_t()


def program(**kw):
    """Try a (contradictory) directed call, fall back to a plain one."""
    o = Item()
    o.set_randstate(vsc.RandState.mkFromSeed(5))
    trace = []
    for _ in range(3):
        try:
            with contextlib.redirect_stdout(io.StringIO()):
                with o.randomize_with(**kw) as it:
                    it.c[3:0] == 3
                    it.c[1:0] == 0          # contradicts the line above
        except vsc.SolveFailure:
            trace.append("SolveFailure")
            o.randomize()
        except Exception as e:              # anything else: what a user would see as a crash
            trace.append("CRASH %s: %s" % (type(e).__name__, e))
            break
        trace.append((o.c, o.a))
    return trace


ref = program(solve_fail_debug=0)
got = program(solve_fail_debug=1)
print("expected: identical traces for solve_fail_debug=0 and solve_fail_debug=1")
print("solve_fail_debug=0:", ref)
print("solve_fail_debug=1:", got)
if ref != got:
    print("DEFECT: the outcome depends on the solve-failure-debug setting")
    sys.exit(1)
print("ok")
sys.exit(0)
