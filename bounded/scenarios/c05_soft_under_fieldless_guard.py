#!/usr/bin/env python
"""C05 defect 1: a soft constraint nested under a guard that contains no
field reference (e.g. an index-only guard inside foreach, written with
vsc.implies) makes randomize() crash with AttributeError.

Property clause: "Soft constraints never turn a satisfiable hard-constraint
system into a failure" and "a soft constraint nested under if/else or implies
applies only when its guard holds".
"""
import sys, traceback
import vsc


@vsc.randobj
class Hard(object):
    """Control: same shape, but the guarded statement is a hard constraint"""
    def __init__(self):
        self.l = vsc.rand_list_t(vsc.uint8_t(), sz=4)

    @vsc.constraint
    def c(self):
        with vsc.foreach(self.l, idx=True) as i:
            with vsc.implies(i == 0):
                self.l[i] == 10
            with vsc.implies(i != 0):
                self.l[i] == 12


@vsc.randobj
class Soft(object):
    def __init__(self):
        self.l = vsc.rand_list_t(vsc.uint8_t(), sz=4)

    @vsc.constraint
    def c(self):
        with vsc.foreach(self.l, idx=True) as i:
            with vsc.implies(i == 0):
                vsc.soft(self.l[i] == 10)
            with vsc.implies(i != 0):
                vsc.soft(self.l[i] == 12)


def main():
    h = Hard()
    h.randomize()
    print("control (hard constraints under the same guards): %s" % list(h.l))

    expected = [10, 12, 12, 12]
    print("expected: randomize() succeeds (there are no hard constraints at all) "
          "and l == %s" % expected)
    s = Soft()
    try:
        s.randomize()
    except Exception as e:
        traceback.print_exc(limit=-2)
        print("got     : %s: %s" % (type(e).__name__, e))
        print("DEFECT PRESENT")
        return 1
    got = list(s.l)
    print("got     : l == %s" % got)
    if got != expected:
        print("DEFECT PRESENT (guarded soft constraints not honoured)")
        return 1
    print("ok")
    return 0


if __name__ == "__main__":
    sys.exit(main())
