#!/usr/bin/env python
"""C06 defect 6: when a call references a dynamic constraint that belongs to
an object OUTSIDE the randomized tree (typically: randomize only a sub-object,
under a dynamic constraint of its parent), the per-call expansion of that
dynamic constraint is never rolled back.  Later calls keep using the expansion
made for the first call, so after the list changes size the dynamic constraint
no longer constrains the fields it is written over.

Clauses: "leave no trace on later calls" and "[a dynamic constraint] always
constrains the fields of the object ... through which it was referenced".
"""
import random, sys, traceback
import vsc

random.seed(1)

@vsc.randobj
class E:
    def __init__(self):
        self.arr = vsc.rand_list_t(vsc.uint8_t(), 3)

@vsc.randobj
class P:
    def __init__(self):
        self.child = vsc.rand_attr(E())
        self.base = vsc.uint8_t(5)

    @vsc.dynamic_constraint
    def ramp(self):
        with vsc.foreach(self.child.arr, idx=True) as i:
            self.child.arr[i] == self.base + i

bad = []

def check(name, expected, fn):
    try:
        got, ok = fn()
    except Exception as e:
        traceback.print_exc(limit=-2)
        got, ok = "exception %s: %s" % (type(e).__name__, e), False
    print("[%s]\n   expected: %s\n   got     : %s  -> %s" % (
        name, expected, got, "ok" if ok else "VIOLATION"))
    if not ok:
        bad.append(name)

def ctl():
    # Same thing, but the whole parent is randomized: works
    p = P()
    with p.randomize_with() as it:
        it.ramp()
    first = list(p.child.arr)
    p.child.arr.append(0)
    with p.randomize_with() as it:
        it.ramp()
    return (first, list(p.child.arr)), (first == [5, 6, 7] and list(p.child.arr) == [5, 6, 7, 8])
check("control: p.randomize_with(){ p.ramp() }, grow list, repeat",
      "[5,6,7] then [5,6,7,8]", ctl)

def grow():
    p = P()
    with p.child.randomize_with() as it:
        p.ramp()
    first = list(p.child.arr)
    p.child.arr.append(0)
    res = []
    for _ in range(3):
        with p.child.randomize_with() as it:
            p.ramp()
        res.append(list(p.child.arr))
    return (first, res), (first == [5, 6, 7] and all(r == [5, 6, 7, 8] for r in res))
check("p.child.randomize_with(){ p.ramp() }, grow list, repeat x3",
      "[5,6,7] then [5,6,7,8] each time", grow)

def shrink():
    p = P()
    with p.child.randomize_with() as it:
        p.ramp()
    first = list(p.child.arr)
    p.child.arr.clear()
    p.child.arr.append(0)
    p.base = 40
    res = []
    for _ in range(3):
        with p.child.randomize_with() as it:
            p.ramp()
        res.append(list(p.child.arr))
    return (first, res), (first == [5, 6, 7] and all(r == [40] for r in res))
check("p.child.randomize_with(){ p.ramp() }, replace list by 1 element, base=40, repeat x3",
      "[5,6,7] then [40] each time", shrink)

if bad:
    print("DEFECT PRESENT:", bad)
    sys.exit(1)
print("no defect")
sys.exit(0)
