#!/usr/bin/env python
"""
C14 defect 3: a field that is the target of a 'dist' placed under a condition
is steered to the dist's value set on every call, also when the condition
is false and the dist does not apply.

Clause: "Every value that a random field takes in at least one solution of the
active constraints has non-zero probability of being produced".

  if (m == 0) a dist {1, 2}        -> with m == 1, a may be anything in 0..255
"""
import sys, io, contextlib
import vsc

N = 1000


@vsc.randobj
class Item(object):
    def __init__(self):
        self.m = vsc.rand_bit_t(1)
        self.a = vsc.rand_uint8_t()

    @vsc.constraint
    def c(self):
        with vsc.if_then(self.m == 0):
            vsc.dist(self.a, [vsc.weight(1, 1), vsc.weight(2, 1)])


# The library agrees that e.g. (m=1, a=200) is a solution
probe = Item()
ok_probe = []
for v in (0, 3, 77, 200, 255):
    try:
        with contextlib.redirect_stdout(io.StringIO()):
            with probe.randomize_with() as it:
                it.m == 1
                it.a == v
        ok_probe.append(v)
    except Exception:
        pass

obj = Item()
obj.set_randstate(vsc.RandState.mkFromSeed(1))
n_m1 = 0
a_when_m1 = {}
for _ in range(N):
    obj.randomize()
    if int(obj.m) == 0:
        assert int(obj.a) in (1, 2)
    else:
        n_m1 += 1
        a_when_m1[int(obj.a)] = a_when_m1.get(int(obj.a), 0) + 1

outside = [v for v in a_when_m1 if v not in (1, 2)]
print("solutions accepted by the library with m == 1: a in %s" % ok_probe)
print("expected: in the %d draws with m == 1, 'a' is free (0..255): values other than 1/2 must show up" % n_m1)
print("got     : a histogram when m == 1: %s" % dict(sorted(a_when_m1.items())))

if n_m1 > 50 and len(outside) == 0:
    print("DEFECT PRESENT: 254 legal values of 'a' are never produced when the dist is not active")
    sys.exit(1)
print("ok")
sys.exit(0)
