#!/usr/bin/env python
# C03 / defect 4: rand_mode of a random sub-object (vsc.rand_attr) cannot be
# switched off through the public API: the assignment is accepted silently but
# never reaches the field model, so the fields of the sub-object are still
# randomized; reading rand_mode back raises AttributeError.
import sys, io, contextlib
import vsc

@vsc.randobj
class Sub(object):
    def __init__(self):
        self.x = vsc.rand_uint8_t()
        self.y = vsc.rand_uint8_t()

@vsc.randobj
class Top(object):
    def __init__(self):
        self.a = vsc.rand_uint8_t()
        self.s = vsc.rand_attr(Sub())
    @vsc.constraint
    def c(self):
        self.a != self.s.x

t = Top()
with vsc.raw_mode():
    t.s.rand_mode = False        # accepted without any error
t.s.x = 5
t.s.y = 6

changed = 0
for i in range(10):
    with contextlib.redirect_stdout(io.StringIO()):
        t.randomize()
    if (t.s.x, t.s.y) != (5, 6):
        changed += 1
    t.s.x = 5
    t.s.y = 6
print("expected: with t.s.rand_mode = False, (s.x, s.y) stay (5, 6) in 10 calls out of 10")
print("got     : changed in %d call(s) out of 10" % changed)

readback = None
try:
    with vsc.raw_mode():
        readback = t.s.rand_mode
    print("reading t.s.rand_mode back: expected False, got %s" % str(readback))
except Exception as e:
    readback = e
    print("reading t.s.rand_mode back: expected False, got %s: %s" % (type(e).__name__, e))

# (for reference: the field model itself implements the switch)
t2 = Top()
t2.s.get_model().rand_mode = False
t2.s.x = 5
ok_model = True
for i in range(10):
    with contextlib.redirect_stdout(io.StringIO()):
        t2.randomize()
    ok_model &= (t2.s.x == 5)
print("(model-level switch FieldCompositeModel.rand_mode honoured: %s)" % ok_model)

if changed > 0 or readback is not False:
    print("DEFECT PRESENT")
    sys.exit(1)
print("no defect")
sys.exit(0)
