"""C20 defect 4: a negative single-value member of the domain of a signed 'before'
variable is never targeted.

Property clause: "every feasible value of a ... is produced with a probability that
does not depend on how many values of b accompany it, uniform over a's feasible
values when these fill its inferred range."

a, b are int8; a inside {-3, -1, 5, 7}; b >= a; solve_order(a, b).  The four values
are all feasible and are exactly a's inferred domain, so each must appear with
probability 1/4.  The value -3 never appears (and -1 gets its share).
"""
import sys, collections
import vsc

@vsc.randobj
class C:
    def __init__(self):
        self.a = vsc.rand_int8_t()
        self.b = vsc.rand_int8_t()
    @vsc.constraint
    def c(self):
        vsc.solve_order(self.a, self.b)
        self.a.inside(vsc.rangelist(-3, -1, 5, 7))
        self.b >= self.a

o = C()
o.set_randstate(vsc.RandState.mkFromSeed(11))
N = 1000
h = collections.Counter()
for _ in range(N):
    o.randomize()
    a, b = int(o.a), int(o.b)
    assert a in (-3, -1, 5, 7) and b >= a, "constraint violated"
    h[a] += 1
print("draws: %d; expected: each of -3, -1, 5, 7 about %d times" % (N, N // 4))
print("got: %s" % sorted(h.items()))
missing = [v for v in (-3, -1, 5, 7) if h[v] == 0]
print("values never produced: %s" % missing)
# P(a value is absent from 1000 uniform draws over 4 values) = 0.75^1000 ~ 1e-125
if missing:
    print("DEFECT: a feasible negative value of the earlier variable is unreachable")
    sys.exit(1)
print("OK")
sys.exit(0)
