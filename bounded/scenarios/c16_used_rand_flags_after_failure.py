"""
C16 defect 1: a call that ends with SolveFailure (or with a user exception
raised in pre_randomize) leaves the per-call "is being randomized" flag
(FieldModel.is_used_rand) set on the fields it touched.  A later call that
randomizes a *different* root then treats those fields as solver variables
and overwrites them.

Clause violated: "Every later construction or randomization therefore behaves
exactly as in a session where the failed call never happened, apart from the
random state having advanced."
"""
import sys
import vsc


class Boom(Exception):
    pass


@vsc.randobj
class Sub:
    def __init__(self):
        self.x = vsc.rand_uint8_t()
        self.boom = False

    @vsc.constraint
    def x_c(self):
        self.x < 100

    def pre_randomize(self):
        if self.boom:
            raise Boom("user error in pre_randomize")


@vsc.randobj
class Top:
    def __init__(self):
        self.s1 = vsc.rand_attr(Sub())
        self.s2 = vsc.rand_attr(Sub())


def session(mode):
    """mode: None (clean), 'solvefail' or 'pre_randomize'"""
    t = Top()
    t.set_randstate(vsc.RandState.mkFromSeed(3))
    t.s1.set_randstate(vsc.RandState.mkFromSeed(2))
    t.randomize()                       # ends normally
    s2_before = t.s2.x

    if mode == "solvefail":
        try:
            with t.randomize_with() as it:
                it.s2.x > 100           # contradicts Sub.x_c -> SolveFailure
        except vsc.SolveFailure:
            pass
    elif mode == "pre_randomize":
        t.s2.boom = True
        try:
            t.randomize()
        except Boom:
            pass
        t.s2.boom = False
    s2_after_fail = t.s2.x

    # Later call: randomize only s1.  s2 is not part of this call, so s2.x
    # is a plain constant in the inline constraint.
    with t.s1.randomize_with() as it:
        it.x == t.s2.x + 1
    return s2_before, s2_after_fail, t.s2.x, t.s1.x


bad = False
ref = session(None)
print("clean session      : s2.x before=%d, after later call=%d, s1.x=%d" % (ref[0], ref[2], ref[3]))
assert ref[0] == ref[2] and ref[3] == ref[0] + 1

for mode in ("solvefail", "pre_randomize"):
    r = session(mode)
    print("session with failed call (%s): s2.x before=%d after-failed-call=%d after later call=%d, s1.x=%d" % (
        mode, r[0], r[1], r[2], r[3]))
    print("  expected: the later call on s1 leaves s2.x untouched (%d) and sets s1.x=%d" % (r[1], r[1] + 1))
    if r[2] != r[1] or r[3] != r[1] + 1:
        print("  got     : s2.x was re-randomized to %d by a call that only randomizes s1%s" % (
            r[2], " (and now violates its own constraint x < 100)" if r[2] >= 100 else ""))
        bad = True
    else:
        print("  got     : as expected")

sys.exit(1 if bad else 0)
