"""C02: "A satisfiable system never fails and never raises any other exception from inside the library": list.sum / list.product
over an empty list and over a list that is not random in the call."""
import sys
import vsc


@vsc.randobj
class P(object):
    def __init__(self):
        self.l = vsc.rand_list_t(vsc.uint8_t())          # empty
        self.n = vsc.list_t(vsc.uint8_t(), sz=3)          # non-random
        self.t = vsc.rand_uint8_t()
        self.u = vsc.rand_uint16_t()

    @vsc.constraint
    def c(self):
        self.l.sum == self.t
        self.n.sum == self.u


p = P()
for i, v in enumerate([3, 4, 5]):
    p.n[i] = v
ok = True
try:
    for _ in range(3):
        p.randomize()
        print("t =", int(p.t), "u =", int(p.u))
        ok = ok and int(p.t) == 0 and int(p.u) == 12
except vsc.SolveFailure as e:
    print("SolveFailure on a satisfiable system")
    ok = False
except Exception as e:
    print("raised", type(e).__name__, e)
    ok = False
sys.exit(0 if ok else 1)
