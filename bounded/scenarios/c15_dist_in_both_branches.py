#!/usr/bin/env python
# C15 defect 2: dist constraints in the branches of an if/else whose condition
# is a NON-RANDOM field: the weights of the branch that is NOT active are used
# for half of the draws.
import random, sys
import vsc
from collections import Counter

random.seed(20240215)

@vsc.randobj
class Item:
    def __init__(self):
        self.a = vsc.rand_uint8_t()
        self.mode = vsc.uint8_t(1)       # non-random selector

    @vsc.constraint
    def c(self):
        with vsc.if_then(self.mode == 1):
            vsc.dist(self.a, [vsc.weight(1, 1), vsc.weight(2, 999)])
        with vsc.else_then:
            vsc.dist(self.a, [vsc.weight(1, 999), vsc.weight(2, 1)])

N = 1000
o = Item()
o.mode = 1
c = Counter()
for i in range(N):
    o.randomize()
    c[o.a] += 1

print("mode == 1, so the active constraint is: a dist {1 := 1, 2 := 999}")
print("expected : value 1 with probability 1/1000 (about 1 of %d draws; "
      "more than 50 is impossible in practice)" % N)
print("got      : %s" % dict(sorted(c.items())))
if c[1] > 50:
    print("DEFECT: the weights of the inactive else-branch dist are applied")
    sys.exit(1)
print("ok")
sys.exit(0)
