#!/usr/bin/env python
"""C01 defect 1: 'x in <randsz_list_t>' is silently dropped (always true).

Clause violated: "the values ... satisfy every enabled hard constraint ...
under the documented SystemVerilog-style meaning of the operators (...
in/rangelist ...)".

doc/source/data_types.rst documents `self.a in self.my_l` for lists. When the
list is a randsz_list_t the membership constraint is lowered to the constant
'true', so randomize() returns normally with a value of `a` that is not an
element of the list.
"""
import random
import sys
import vsc


@vsc.randobj
class Item(object):
    def __init__(self):
        self.a = vsc.rand_uint8_t()
        self.l = vsc.randsz_list_t(vsc.uint8_t())

    @vsc.constraint
    def c(self):
        self.l.size.inside(vsc.rangelist((1, 3)))
        self.a in self.l


def main():
    random.seed(1)
    it = Item()
    it.set_randstate(vsc.RandState.mkFromSeed(1))
    n = 50
    bad = []
    for i in range(n):
        it.randomize()
        elems = [int(v) for v in it.l]
        if int(it.a) not in elems:
            bad.append((int(it.a), elems))

    print("constraint : self.a in self.l   (l is a randsz_list_t, size in [1..3])")
    print("expected   : after every randomize(), a is equal to one of the elements of l")
    print("got        : %d of %d calls returned normally with a NOT in l" % (len(bad), n))
    for a, elems in bad[:5]:
        print("             a=%d l=%s" % (a, elems))
    if len(bad) > 0:
        print("DEFECT PRESENT")
        return 1
    print("ok")
    return 0


if __name__ == "__main__":
    sys.exit(main())
