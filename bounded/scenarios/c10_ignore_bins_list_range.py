#!/usr/bin/env python
# C10 defect 3: an ignore/illegal bin that lists a range in the documented
# [low, high] list form (accepted for regular bins) makes the covergroup
# unbuildable with an internal TypeError; only (low, high) tuples work.
import sys
import traceback
import vsc

def build(rng):
    @vsc.covergroup
    class cg_ign(object):
        def __init__(self):
            self.with_sample(dict(a=vsc.bit_t(4)))
            self.cp = vsc.coverpoint(self.a,
                bins=dict(b=vsc.bin_array([2], [0, 7]), c=vsc.bin([8, 15])),
                ignore_bins=dict(ig=vsc.bin(rng)),
                illegal_bins=dict(il=vsc.bin(rng.__class__((12, 13)))))
    return cg_ign()

def run(rng):
    c = build(rng)
    for v in range(16):
        c.sample(v)
    m = c.cp.get_model()
    return ([m.get_bin_hits(i) for i in range(m.get_n_bins())],
            [m.get_ignore_bin_hits(i) for i in range(m.get_n_ignore_bins())],
            [m.get_illegal_bin_hits(i) for i in range(m.get_n_illegal_bins())])

# values 0..7 minus {2,3,4} = {0,1,5,6,7} -> {0,1} {5,6,7}; c = 8..15 minus {12,13} -> 6
exp = ([2, 3, 6], [3], [2])
print("expected (bins, ignore, illegal) = %s" % (exp,))
ref = run((2, 4))
print("tuple form  vsc.bin((2,4)): got %s" % (ref,))
try:
    got = run([2, 4])
    print("list form   vsc.bin([2,4]): got %s" % (got,))
except Exception as e:
    traceback.print_exc(limit=-1)
    got = None
    print("list form   vsc.bin([2,4]): got %s: %s" % (type(e).__name__, e))

if ref == exp and got == exp:
    print("OK")
    sys.exit(0)
print("DEFECT")
sys.exit(1)
