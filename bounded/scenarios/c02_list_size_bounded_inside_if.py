#!/usr/bin/env python
"""C02 extra 8: when the size of a random-size list is only bounded inside an
if/else (or implies) branch, randomize() raises
   Exception: Max size for array l (4294967295 exceeds 100000

Clause violated: "A satisfiable system never ... raises any other exception
from inside the library".  (The largest size any solution has is 3.)
"""
import sys, io, contextlib
import vsc


@vsc.randobj
class P:
    def __init__(self):
        self.short = vsc.rand_bit_t(1)
        self.l = vsc.randsz_list_t(vsc.uint8_t())

    @vsc.constraint
    def c(self):
        with vsc.if_then(self.short == 1):
            self.l.size == 2
        with vsc.else_then:
            self.l.size == 3


def main():
    o = P()
    print("case    : if (short) size == 2 else size == 3")
    print("expected: a solution with 2 or 3 elements")
    buf = io.StringIO()
    try:
        with contextlib.redirect_stdout(buf):
            o.randomize()
    except vsc.SolveFailure:
        print("got     : SolveFailure")
        return 1
    except Exception as e:
        print("got     : %s: %s" % (type(e).__name__, e))
        print("DEFECT PRESENT")
        return 1
    print("got     : short=%d len=%d" % (o.short, len(o.l)))
    ok = len(o.l) == (2 if o.short else 3)
    print("no defect" if ok else "DEFECT PRESENT (bad values)")
    return 0 if ok else 1


if __name__ == "__main__":
    sys.exit(main())
