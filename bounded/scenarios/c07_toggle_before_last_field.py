#!/usr/bin/env python
"""C07 defect 3: calling constraint_mode() from a constructor that is not the
outermost/last one (base-class __init__, or before the last field is created)
forces the instance's model to be built right there. Everything the rest of
the constructor chain adds is either missing from the model (fields never
randomized) or makes construction blow up (derived blocks that reference
fields that do not exist yet).

Clauses: "The class constraint blocks enforced on an object are exactly those
most-derived by name in its class hierarchy whose constraint_mode is on for
that instance" / "Switching a block off removes it from the next and all later
calls".
"""
import sys
import vsc

bad = []


@vsc.randobj
class Base(object):
    def __init__(self, relaxed=False):
        self.a = vsc.rand_bit_t(16)
        if relaxed:
            self.c.constraint_mode(False)

    @vsc.constraint
    def c(self):
        self.a == 5


@vsc.randobj
class Derived(Base):
    def __init__(self, relaxed=False):
        super().__init__(relaxed)
        self.b = vsc.rand_bit_t(16)

    @vsc.constraint
    def d(self):
        self.b == 7


@vsc.randobj
class Derived2(Base):
    """No block references the late field"""
    def __init__(self, relaxed=False):
        super().__init__(relaxed)
        self.b = vsc.rand_bit_t(16)


# sanity: without the toggle everything works
ref = Derived(False)
ref.randomize()
assert (ref.a, ref.b) == (5, 7)

print("A: expected: Derived(relaxed=True) constructs; 'c' off -> a free, 'd' on -> b==7")
try:
    o = Derived(True)
    sa, sb = set(), set()
    for _ in range(12):
        o.randomize()
        sa.add(int(o.a))
        sb.add(int(o.b))
    print("A: got     : a %d values, b %s" % (len(sa), sorted(sb)))
    if sb != {7}:
        bad.append("A: enabled block 'd' not enforced")
    if len(sa) < 2:
        bad.append("A: disabled block 'c' still enforced")
except Exception as e:
    print("A: got     : %s: %s" % (type(e).__name__, e))
    bad.append("A: toggling in base constructor breaks construction (%s)" % type(e).__name__)

print("B: expected: Derived2(relaxed=True): a free, b (rand, unconstrained) free")
try:
    o = Derived2(True)
    sa, sb = set(), set()
    for _ in range(12):
        o.randomize()
        sa.add(int(o.a))
        sb.add(int(o.b))
    print("B: got     : a %d values, b %d value(s) %s" % (len(sa), len(sb), sorted(sb)[:3]))
    if len(sb) < 2:
        bad.append("B: field added after the toggle is missing from the model (never randomized)")
except Exception as e:
    print("B: got     : %s: %s" % (type(e).__name__, e))
    bad.append("B: exception %s" % type(e).__name__)

if bad:
    print("DEFECT PRESENT:")
    for x in bad:
        print("  -", x)
    sys.exit(1)
print("OK: behaviour matches the property")
sys.exit(0)
