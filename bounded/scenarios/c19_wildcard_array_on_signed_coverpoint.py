#!/usr/bin/env python
# C19 defect 3: on a signed coverpoint a wildcard_bin_array creates bins for the
# unsigned images of the matching bit patterns (e.g. 129..255 for "0b1xxxxxx1" on an
# int8), so signed samples that agree with the pattern (and do hit the single
# wildcard_bin with the same pattern) fall into no array bin; the bins that were
# created can never be hit by any value of the coverpoint's type.
import sys
import vsc

PATTERN = "0b1xxxxxx1"       # 8 digits == width of the coverpoint, MSB fixed to 1

@vsc.randobj
class item(object):
    def __init__(self):
        self.a = vsc.int8_t()

@vsc.covergroup
class cg(object):
    def __init__(self, it):
        self.cp_single = vsc.coverpoint(it.a, bins=dict(s=vsc.wildcard_bin(PATTERN)))
        self.cp_array = vsc.coverpoint(it.a, bins=dict(arr=vsc.wildcard_bin_array([], PATTERN)))

it = item()
c = cg(it)
cps = c.cp_single.get_model()
cpa = c.cp_array.get_model()
n = cpa.get_n_bins()

def agrees(v):
    bits = v & 0xFF           # two's-complement image of the int8 value
    return (bits & 0x81) == 0x81

single_hit = []
array_hit = {}
for v in range(-128, 128):    # every value an int8 can hold
    it.a = v
    assert int(it.a) == v
    bs = cps.get_bin_hits(0)
    ba = [cpa.get_bin_hits(i) for i in range(n)]
    c.sample()
    if cps.get_bin_hits(0) != bs:
        single_hit.append(v)
    h = [i for i in range(n) if cpa.get_bin_hits(i) != ba[i]]
    if h:
        array_hit[v] = h

exp = [v for v in range(-128, 128) if agrees(v)]
print("int8 values agreeing with %s on every non-wildcard bit: %d values, %s ... %s" %
      (PATTERN, len(exp), exp[:3], exp[-3:]))
print("expected: single bin and the %d-bin array are both hit by exactly these values; "
      "array coverage reaches 100%%" % len(exp))
print("got     : single wildcard_bin hit by %d values (%s ... %s)" %
      (len(single_hit), single_hit[:3], single_hit[-3:]))
print("got     : wildcard_bin_array has %d bins, hit by %d values %s; coverage after all 256 int8 values = %.2f%%" %
      (n, len(array_hit), sorted(array_hit)[:5], c.cp_array.get_coverage()))

ok = (single_hit == exp and sorted(array_hit) == exp and n == len(exp)
      and all(len(h) == 1 for h in array_hit.values())
      and [array_hit[v][0] for v in exp] == list(range(len(exp))))
if not ok:
    print("DEFECT PRESENT: matching signed values have no array bin; array bins are unreachable")
    sys.exit(1)
print("OK")
sys.exit(0)
