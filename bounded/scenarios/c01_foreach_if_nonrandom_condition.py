#!/usr/bin/env python
"""C01 defect 3: if/else inside foreach takes the WRONG branch when the
condition is a non-random expression that uses '~', a part-select or a field
of a non-random object-list element.

Clause violated: "the values ... satisfy every enabled hard constraint ...
under the documented SystemVerilog-style meaning of the operators (... 
part-select, ... if/else-if/else, ... Boolean composition)".

During foreach expansion an if/else whose condition contains no random
variable is folded at expansion time by XExprEvaluator. That evaluator has no
handler for unary-not, part-select and indexed field references, so
  ~(mode == 1)      is evaluated as   (mode == 1)
  mode[0] == 1      is evaluated as   (0 == 1)         (last literal visited)
  cfg[i].en == 1    is evaluated as   (cfg[i].<last field> == 1)
and only the constraints of the wrongly selected branch are kept. The very
same if/else written outside foreach is solved correctly.
"""
import random
import sys
import vsc


@vsc.randobj
class NotCond(object):
    def __init__(self):
        self.mode = vsc.uint8_t(1)                     # non-random, value 1
        self.l = vsc.rand_list_t(vsc.uint8_t(), 4)

    @vsc.constraint
    def c(self):
        with vsc.foreach(self.l, idx=True) as i:
            with vsc.if_then(~(self.mode == 1)):       # false -> else branch applies
                self.l[i] < 10
            with vsc.else_then:
                self.l[i] > 100


@vsc.randobj
class NotCondNoForeach(object):
    """Control: same condition outside foreach"""
    def __init__(self):
        self.mode = vsc.uint8_t(1)
        self.l = vsc.rand_list_t(vsc.uint8_t(), 4)

    @vsc.constraint
    def c(self):
        with vsc.if_then(~(self.mode == 1)):
            self.l[0] < 10
        with vsc.else_then:
            self.l[0] > 100


@vsc.randobj
class PartselCond(object):
    def __init__(self):
        self.mode = vsc.uint8_t(1)                     # bit 0 is set
        self.l = vsc.rand_list_t(vsc.uint8_t(), 4)

    @vsc.constraint
    def c(self):
        with vsc.foreach(self.l, idx=True) as i:
            with vsc.if_then(self.mode[0] == 1):       # true -> if branch applies
                self.l[i] < 10
            with vsc.else_then:
                self.l[i] > 100


@vsc.randobj
class Cfg(object):
    def __init__(self, en=0, zz=0):
        self.en = vsc.uint8_t(en)
        self.zz = vsc.uint8_t(zz)


@vsc.randobj
class ObjListCond(object):
    def __init__(self):
        self.cfg = vsc.list_t(Cfg(), 0)                # non-random per-element config
        for i in range(4):
            self.cfg.append(Cfg(en=(i % 2), zz=1 - (i % 2)))
        self.l = vsc.rand_list_t(vsc.uint8_t(), 4)

    @vsc.constraint
    def c(self):
        with vsc.foreach(self.l, idx=True) as i:
            with vsc.if_then(self.cfg[i].en == 1):
                self.l[i] < 10
            with vsc.else_then:
                self.l[i] > 100


def trial(name, cls, pred, expected, n=20):
    obj = cls()
    obj.set_randstate(vsc.RandState.mkFromSeed(1))
    bad = []
    for k in range(n):
        obj.randomize()
        vals = [int(v) for v in obj.l]
        if not pred(vals):
            bad.append(vals)
    print("%-34s expected: %s" % (name, expected))
    print("%-34s got     : %d of %d calls violate it%s" % (
        "", len(bad), n, ("  e.g. l=%s" % bad[0]) if bad else ""))
    return len(bad)


def main():
    random.seed(1)
    ctrl = trial("control: ~cond outside foreach", NotCondNoForeach,
                 lambda v: v[0] > 100, "l[0] > 100 (mode==1, so ~(mode==1) is false)")
    n1 = trial("~(mode==1) inside foreach", NotCond,
               lambda v: all(x > 100 for x in v), "all l[i] > 100 (else branch)")
    n2 = trial("mode[0]==1 inside foreach", PartselCond,
               lambda v: all(x < 10 for x in v), "all l[i] < 10 (if branch, bit 0 of mode is 1)")
    n3 = trial("cfg[i].en==1 inside foreach", ObjListCond,
               lambda v: all((v[i] < 10) if (i % 2) else (v[i] > 100) for i in range(4)),
               "l[1],l[3] < 10 and l[0],l[2] > 100 (cfg[i].en = i%2)")
    if ctrl != 0:
        print("note: control case failed as well")
    if n1 or n2 or n3:
        print("DEFECT PRESENT")
        return 1
    print("ok")
    return 0


if __name__ == "__main__":
    sys.exit(main())
