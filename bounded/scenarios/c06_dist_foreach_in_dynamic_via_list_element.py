#!/usr/bin/env python
"""C06 defect 3: a dynamic constraint referenced through a LIST ELEMENT
(it.l[k].dyn()) is not elaborated: a dist inside it is silently ignored and a
foreach / unique-over-list inside it makes the call die with an internal error,
while the very same reference through a plain sub-object works.

Clause: "[a dynamic constraint] always constrains the fields of the object
(or list element) through which it was referenced".
"""
import random, sys, traceback
import vsc

random.seed(1)

@vsc.randobj
class E:
    def __init__(self):
        self.x = vsc.rand_uint8_t()
        self.arr = vsc.rand_list_t(vsc.uint8_t(), 3)

    @vsc.dynamic_constraint
    def one_or_two(self):
        vsc.dist(self.x, [vsc.weight(1, 1), vsc.weight(2, 1)])

    @vsc.dynamic_constraint
    def ramp(self):
        with vsc.foreach(self.arr, idx=True) as i:
            self.arr[i] == i + 10

@vsc.randobj
class P:
    def __init__(self):
        self.sub = vsc.rand_attr(E())
        self.l = vsc.rand_list_t(E(), 0)
        for _ in range(3):
            self.l.append(E())

bad = []

def check(name, expected, fn):
    try:
        got, ok = fn()
    except Exception as e:
        traceback.print_exc(limit=-2)
        got, ok = "exception %s: %s" % (type(e).__name__, e), False
    print("[%s]\n   expected: %s\n   got     : %s  -> %s" % (
        name, expected, got, "ok" if ok else "VIOLATION"))
    if not ok:
        bad.append(name)

def ctl_dist():
    p = P(); res = []
    for _ in range(12):
        with p.randomize_with() as it:
            it.sub.one_or_two()
        res.append(int(p.sub.x))
    return res, all(v in (1, 2) for v in res)
check("control: it.sub.one_or_two()", "sub.x in {1,2} in every call", ctl_dist)

def elem_dist():
    p = P(); res = []
    for _ in range(12):
        with p.randomize_with() as it:
            it.l[1].one_or_two()
        res.append(int(p.l[1].x))
    return res, all(v in (1, 2) for v in res)
check("it.l[1].one_or_two()", "l[1].x in {1,2} in every call", elem_dist)

def ctl_fe():
    p = P()
    with p.randomize_with() as it:
        it.sub.ramp()
    return list(p.sub.arr), list(p.sub.arr) == [10, 11, 12]
check("control: it.sub.ramp()", "sub.arr == [10,11,12]", ctl_fe)

def elem_fe():
    p = P()
    with p.randomize_with() as it:
        it.l[1].ramp()
    return list(p.l[1].arr), list(p.l[1].arr) == [10, 11, 12]
check("it.l[1].ramp()", "l[1].arr == [10,11,12]", elem_fe)

if bad:
    print("DEFECT PRESENT:", bad)
    sys.exit(1)
print("no defect")
sys.exit(0)
