"""C17 defect 2: the owner's post_randomize runs while a random-size scalar list
still carries the padding elements the solver added; the list is only trimmed
to its solved size afterwards.

Clause: "it invokes post_randomize exactly once on the same objects after every
field holds its final value"
"""
import sys
import vsc

seen = {}

@vsc.randobj
class Pkt:
    def __init__(self):
        self.data = vsc.randsz_list_t(vsc.uint8_t())

    @vsc.constraint
    def c(self):
        self.data.size.inside(vsc.rangelist((1, 6)))
        self.data.size != 6          # solved size is always < upper bound
        with vsc.foreach(self.data) as d:
            d > 0                    # every element (padding too) is non-zero

    def post_randomize(self):
        seen["len"] = len(self.data)
        seen["sum"] = self.data.sum
        seen["product_is_zero"] = (self.data.product == 0)
        seen["last"] = int(self.data[-1])

p = Pkt()
p.set_randstate(vsc.RandState.mkFromSeed(7))
bad = False
for k in range(5):
    p.randomize()
    final = dict(len=len(p.data), sum=p.data.sum,
                 product_is_zero=(p.data.product == 0), last=int(p.data[-1]))
    print("call %d: list after randomize() = %s" % (k, list(p.data)))
    print("  expected post_randomize to observe :", final)
    print("  post_randomize actually observed   :", seen)
    if seen != final:
        bad = True

if bad:
    print("DEFECT PRESENT: post_randomize ran before the random-size list held its final contents")
    sys.exit(1)
print("OK")
sys.exit(0)
