"""C13 defect 1: duplicate bin names inside one coverpoint; the saved XML cannot
be read back to the same data (bins merged, counts summed, percentage changes)."""
import sys, io, contextlib, collections
import vsc
from ucis.xml.xml_factory import XmlFactory
from ucis.report.coverage_report_builder import CoverageReportBuilder


@vsc.covergroup
class cg_dup(object):
    def __init__(self):
        self.with_sample(dict(a=vsc.bit_t(4)))
        # auto-bins over 0..15 with 3 and 5 ignored -> value 4 becomes an isolated bin
        self.cp = vsc.coverpoint(self.a, ignore_bins=dict(ig=vsc.bin(3, 5)))


c = cg_dup()
c.sample(1)          # value 1 : once
c.sample(4)          # value 4 : twice
c.sample(4)

with contextlib.redirect_stdout(io.StringIO()):
    mem_rpt = vsc.get_coverage_report_model()
    vsc.write_coverage_db("defect_1.xml")
    inst_cov = c.get_inst_coverage()
xml_rpt = CoverageReportBuilder.build(XmlFactory.read("defect_1.xml"))

mem_cp = mem_rpt.covergroups[0].coverpoints[0]
xml_cp = xml_rpt.covergroups[0].coverpoints[0]
mem_bins = [(b.name, b.count) for b in mem_cp.bins]
xml_bins = [(b.name, b.count) for b in xml_cp.bins]

names = [n for n, _ in mem_bins]
dups = [n for n, k in collections.Counter(names).items() if k > 1]

print("in-memory report, TYPE cg_dup / cp bins :", mem_bins)
print("XML read back,    TYPE cg_dup / cp bins :", xml_bins)
print("get_inst_coverage() = %.4f ; in-memory report cp = %.4f ; XML read back cp = %.4f" % (
    inst_cov, mem_cp.coverage, xml_cp.coverage))
print("expected: 14 distinct bins (values 0,1,2,4,6..15), value 1 hit once, value 4 hit twice,")
print("          and the XML read back identical to the in-memory report")
print("got     : duplicate bin names in memory/report: %s ; bins after read-back: %d (in memory: %d)" % (
    dups, len(xml_bins), len(mem_bins)))

bad = False
if dups:
    bad = True
if xml_bins != mem_bins:
    bad = True
if abs(xml_cp.coverage - mem_cp.coverage) > 1e-6:
    bad = True

if bad:
    print("DEFECT PRESENT")
    sys.exit(1)
print("ok")
sys.exit(0)
