"""C01: "...satisfy every enabled hard constraint ... (if/else-if/else, implies ...)": a foreach nested in an if_then inside an
outer foreach applies only when the guard holds (here the guard is a random field pinned to 0 by the call)."""
import vsc, sys
@vsc.randobj
class A(object):
    def __init__(self):
        self.a = vsc.rand_bit_t(1)
        self.l = vsc.rand_list_t(vsc.uint8_t(), sz=2)
        self.m = vsc.rand_list_t(vsc.uint8_t(), sz=2)
    @vsc.constraint
    def c(self):
        with vsc.foreach(self.l, idx=True) as i:
            with vsc.if_then(self.a == 1):
                with vsc.foreach(self.m, idx=True) as j:
                    self.m[j] < 10
o = A()
seen=set()
for _ in range(40):
    with o.randomize_with() as it:
        it.a == 0
    seen.update(int(x) for x in o.m)
print("a==0 (random guard): max m seen", max(seen))
sys.exit(0 if max(seen) >= 10 else 1)
