#!/usr/bin/env python
"""C01 defect 4: vsc.unique(...) written inside a foreach only constrains the
LAST element of the list.

Clause violated: "the values ... satisfy every enabled hard constraint ...
under the documented SystemVerilog-style meaning of the operators (...
unique ...)".

  with vsc.foreach(self.items, idx=True) as i:
      vsc.unique(self.items[i].a, self.items[i].b)

should make a != b in every element. The foreach expansion copies the unique
constraint without substituting the index variable, so every copy refers to
`items[index]`, and `index` still holds the value of the last iteration when
the copies are finally lowered to the solver. Elements 0..N-2 are left
unconstrained and randomize() returns normally with a == b in some of them.
(An ordinary expression `self.items[i].a != self.items[i].b` in the same place
works.)
"""
import random
import sys
import vsc


@vsc.randobj
class Elem(object):
    def __init__(self):
        self.a = vsc.rand_bit_t(1)
        self.b = vsc.rand_bit_t(1)


@vsc.randobj
class Top(object):
    def __init__(self):
        self.items = vsc.rand_list_t(Elem(), 0)
        for i in range(4):
            self.items.append(Elem())

    @vsc.constraint
    def c(self):
        with vsc.foreach(self.items, idx=True) as i:
            vsc.unique(self.items[i].a, self.items[i].b)


@vsc.randobj
class TopCtrl(object):
    """Control: same thing written with !="""
    def __init__(self):
        self.items = vsc.rand_list_t(Elem(), 0)
        for i in range(4):
            self.items.append(Elem())

    @vsc.constraint
    def c(self):
        with vsc.foreach(self.items, idx=True) as i:
            self.items[i].a != self.items[i].b


def trial(cls, n=40):
    t = cls()
    t.set_randstate(vsc.RandState.mkFromSeed(1))
    bad = []
    per_elem = [0, 0, 0, 0]
    for k in range(n):
        t.randomize()
        pairs = [(int(e.a), int(e.b)) for e in t.items]
        viol = [j for j, p in enumerate(pairs) if p[0] == p[1]]
        for j in viol:
            per_elem[j] += 1
        if viol:
            bad.append(pairs)
    return bad, per_elem


def main():
    random.seed(1)
    n = 40
    cbad, _ = trial(TopCtrl, n)
    bad, per_elem = trial(Top, n)
    print("constraint : foreach(items, idx) as i:  unique(items[i].a, items[i].b)   (a, b are 1-bit)")
    print("expected   : a != b in every one of the 4 elements after randomize()")
    print("control    : '!=' form  -> %d of %d calls violate a != b" % (len(cbad), n))
    print("got        : unique form -> %d of %d calls returned normally with a == b in some element" % (len(bad), n))
    print("             violations per element index: %s (only the last element is ever constrained)" % per_elem)
    for p in bad[:4]:
        print("             (a,b) per element = %s" % p)
    if len(bad) > 0:
        print("DEFECT PRESENT")
        return 1
    print("ok")
    return 0


if __name__ == "__main__":
    sys.exit(main())
