"""C20 defect 2: only 4 of the variables of one solve_order level are randomized.

Property clause: "every feasible value of a ... is produced with a probability that
does not depend on how many values of b accompany it, uniform over a's feasible
values when these fill its inferred range."

solve_order([a0..a7], b) with b == a0+...+a7 (b is 16 bits wide, so every value
0..255 of every a_i is feasible and a_i's inferred range 0..255 is filled).
Each a_i must be uniform on 0..255, so the values 0 and 255 together must make up
2/256 of the samples.  In the library only 4 randomly picked members of the
'before' group get a random target; the other ones keep whatever the SMT solver
returns (mostly 0 or 255).
"""
import sys, collections
import vsc

NV = 8
@vsc.randobj
class C:
    def __init__(self):
        for i in range(NV):
            setattr(self, "a%d" % i, vsc.rand_uint8_t())
        self.b = vsc.rand_bit_t(16)
    @vsc.constraint
    def c(self):
        vsc.solve_order([self.a0, self.a1, self.a2, self.a3,
                         self.a4, self.a5, self.a6, self.a7], self.b)
        self.b == (self.a0 + self.a1 + self.a2 + self.a3 +
                   self.a4 + self.a5 + self.a6 + self.a7)

o = C()
o.set_randstate(vsc.RandState.mkFromSeed(2024))
N = 400
h = collections.Counter()
for _ in range(N):
    o.randomize()
    vals = [int(getattr(o, "a%d" % i)) for i in range(NV)]
    assert int(o.b) == sum(vals), "constraint violated"
    for v in vals:
        h[v] += 1
total = N * NV
extreme = h[0] + h[255]
expected = total * 2 / 256.0
print("samples of a_i: %d" % total)
print("expected number of samples equal to 0 or 255 (uniform): about %.0f" % expected)
print("got: %d   (most common values: %s)" % (extreme, h.most_common(4)))
# uniform: mean 25, sigma 5; 150 is 25 sigma away
if extreme > 150:
    print("DEFECT: the 'before' variables beyond the 4th are not randomized, a_i is far from uniform")
    sys.exit(1)
print("OK")
sys.exit(0)
