"""
C04 defect 6: a random-size list of objects exposes 'size' elements through
len()/size/iteration, but indexing and append()/assignment keep acting on the
longer backing list.

Clauses: "len(), the size attribute, indexing and iteration agree on it.
Appending, extending, assigning or clearing afterwards acts on exactly that
exposed list."
"""
import sys
import vsc


@vsc.randobj
class Item(object):
    def __init__(self, tag=0):
        self.tag = tag
        self.a = vsc.rand_uint8_t()


@vsc.randobj
class C(object):
    def __init__(self):
        self.l = vsc.randsz_list_t(Item())
        for i in range(6):
            self.l.append(Item(i))

    @vsc.constraint
    def c(self):
        self.l.size.inside(vsc.rangelist(vsc.rng(1, 3)))


def main():
    c = C()
    c.randomize()
    defect = False

    size = c.l.size
    n_it = len([x for x in c.l])
    print("after randomize(): size=%d len()=%d iterated=%d" % (size, len(c.l), n_it))

    print("expected: indexing agrees with len(): l[len(l)] raises IndexError")
    try:
        e = c.l[size]
        print("got     : l[%d] returned element tag=%d; l[5] -> tag=%d" % (size, e.tag, c.l[5].tag))
        defect = True
    except IndexError:
        print("got     : IndexError")

    print("expected: append() acts on the exposed list: len() becomes %d and the new element is l[%d] "
          "and is the last one iterated" % (size + 1, size))
    new = Item(99)
    c.l.append(new)
    tags = [x.tag for x in c.l]
    ok = (len(c.l) == size + 1 and c.l.size == size + 1 and tags[-1] == 99 and len(tags) == size + 1)
    try:
        ok = ok and (c.l[size] is new)
    except Exception:
        ok = False
    print("got     : len()=%d size=%d iterated tags=%s l[%d] is new=%s" % (
        len(c.l), c.l.size, tags, size, (c.l[size] is new)))
    defect |= not ok

    if defect:
        print("DEFECT PRESENT")
        return 1
    return 0


if __name__ == "__main__":
    sys.exit(main())
