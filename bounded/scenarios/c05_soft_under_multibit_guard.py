#!/usr/bin/env python
"""C05 defect 3: with a guard that is wider than one bit (e.g.
`if_then(flags & 4)`, accepted and treated as `!= 0` for hard constraints),
soft constraints in the else branch are applied although the if-guard holds
(and win, being later), and soft constraints under two nested multi-bit
guards are never applied.

Property clause: "a soft constraint nested under if/else or implies applies
only when its guard holds" (and the soft constraint whose guard does hold must
be honoured: "the returned values satisfy ... a maximal set of the applicable
soft constraints").
"""
import sys
import vsc


@vsc.randobj
class IfElse(object):
    def __init__(self):
        self.flags = vsc.rand_uint8_t()
        self.h = vsc.rand_uint8_t()   # hard witness of the branch taken
        self.s = vsc.rand_uint8_t()   # target of the soft constraints

    @vsc.constraint
    def c(self):
        with vsc.if_then(self.flags & 4):
            self.h == 1
            vsc.soft(self.s == 1)
        with vsc.else_then:
            self.h == 2
            vsc.soft(self.s == 2)


@vsc.randobj
class Nested(object):
    def __init__(self):
        self.f1 = vsc.rand_uint8_t()
        self.f2 = vsc.rand_uint8_t()
        self.h = vsc.rand_uint8_t()
        self.s = vsc.rand_uint8_t()

    @vsc.constraint
    def c(self):
        with vsc.if_then(self.f1 & 4):
            with vsc.if_then(self.f2 & 2):
                self.h == 1
                vsc.soft(self.s == 1)


def main():
    rc = 0
    o = IfElse()
    for flags in (4, 0, 12, 3):
        with o.randomize_with() as it:
            it.flags == flags
        exp = 1 if (flags & 4) else 2
        ok = (o.h == exp and o.s == exp)
        print("if/else : flags=%2d expected h=%d s=%d ; got h=%d s=%d %s" % (
            flags, exp, exp, o.h, o.s, "" if ok else "  <-- MISMATCH"))
        if not ok:
            rc = 1

    n = Nested()
    for _ in range(4):
        with n.randomize_with() as it:
            it.f1 == 4
            it.f2 == 2
        ok = (n.h == 1 and n.s == 1)
        print("nested  : f1=4 f2=2 expected h=1 s=1 ; got h=%d s=%d %s" % (
            n.h, n.s, "" if ok else "  <-- MISMATCH"))
        if not ok:
            rc = 1
    print("DEFECT PRESENT" if rc else "ok")
    return rc


if __name__ == "__main__":
    sys.exit(main())
