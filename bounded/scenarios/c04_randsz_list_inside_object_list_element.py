"""
C04 defect 3: a random-size list that lives in an element of an object list
gets a random size but no elements.

Clause: "a random-size list ends with a length that satisfies the constraints
on its size, and len(), the size attribute, indexing and iteration agree on
it."

The same class used as a plain sub-object (vsc.rand_attr(Inner())) works.
"""
import sys
import vsc


@vsc.randobj
class Inner(object):
    def __init__(self):
        self.w = vsc.randsz_list_t(vsc.uint8_t())

    @vsc.constraint
    def w_c(self):
        self.w.size.inside(vsc.rangelist(vsc.rng(2, 5)))
        with vsc.foreach(self.w) as it:
            it < 10


@vsc.randobj
class Outer(object):
    def __init__(self):
        self.s = vsc.rand_attr(Inner())          # control: plain sub-object
        self.l = vsc.rand_list_t(Inner())
        for i in range(3):
            self.l.append(Inner())


def view(lst):
    """Return (size, len, n_iterated, index_ok) for a list."""
    size = lst.size
    ln = len(lst)
    try:
        items = [int(x) for x in lst]
        n_it = len(items)
    except Exception as e:
        items = None
        n_it = "%s(%s)" % (type(e).__name__, e)
    try:
        if size > 0:
            lst[size - 1]
        idx_ok = True
    except Exception as e:
        idx_ok = "%s(%s)" % (type(e).__name__, e)
    return size, ln, n_it, idx_ok, items


def main():
    o = Outer()
    o.randomize()

    print("expected: for every rand-size list 2 <= size <= 5, and size == len() == number of "
          "iterated elements, l[size-1] is readable, every element < 10")
    defect = False
    for name, lst in [("o.s.w (sub-object, control)", o.s.w)] + \
                     [("o.l[%d].w" % i, e.w) for i, e in enumerate(o.l)]:
        size, ln, n_it, idx_ok, items = view(lst)
        ok = (2 <= size <= 5 and size == ln == n_it and idx_ok is True
              and all(v < 10 for v in items))
        print("got     : %-28s size=%s len=%s iterated=%s index[size-1]=%s items=%s -> %s" % (
            name, size, ln, n_it, idx_ok, items, "ok" if ok else "VIOLATION"))
        defect |= not ok

    if defect:
        print("DEFECT PRESENT")
        return 1
    return 0


if __name__ == "__main__":
    sys.exit(main())
