#!/usr/bin/env python
"""
C14 defect 1: legal values are starved because the randomization "steering"
only pins the low bits of the value it picked from the inferred range.

Clause: "Every value that a random field takes in at least one solution of the
active constraints has non-zero probability of being produced".

 (A) unsigned 4-bit field, a.inside(rangelist((0,3),(8,11)))  -> 0..3 never produced
 (B) signed   8-bit field, a > -5 ; a < 5                      -> +4 never produced
"""
import sys, io, contextlib
import vsc

N = 1000


def feasible(obj, cand):
    """Values v for which the library itself finds a solution with a == v"""
    ret = []
    for v in cand:
        try:
            with contextlib.redirect_stdout(io.StringIO()):
                with obj.randomize_with() as it:
                    it.a == v
            ret.append(v)
        except Exception:
            pass
    return ret


@vsc.randobj
class TwoRanges(object):
    def __init__(self):
        self.a = vsc.rand_bit_t(4)

    @vsc.constraint
    def c(self):
        self.a.inside(vsc.rangelist((0, 3), (8, 11)))


@vsc.randobj
class SignedWindow(object):
    def __init__(self):
        self.a = vsc.rand_int8_t()

    @vsc.constraint
    def c(self):
        self.a > -5
        self.a < 5


def run(cls, cand, label):
    legal = feasible(cls(), cand)
    obj = cls()
    obj.set_randstate(vsc.RandState.mkFromSeed(1))
    seen = {}
    for _ in range(N):
        obj.randomize()
        v = int(obj.a)
        seen[v] = seen.get(v, 0) + 1
    missing = [v for v in legal if v not in seen]
    print("[%s]" % label)
    print("  legal values (each one solvable with 'a == v'): %s" % legal)
    print("  expected: every legal value appears in %d randomize() calls" % N)
    print("  got     : %s" % dict(sorted(seen.items())))
    print("  never produced: %s" % missing)
    return len(missing) > 0


bad = False
bad |= run(TwoRanges, range(0, 16), "A: bit_t(4) inside [(0,3),(8,11)]")
bad |= run(SignedWindow, range(-128, 128), "B: int8 a > -5 ; a < 5")

if bad:
    print("DEFECT PRESENT: legal values have zero probability")
    sys.exit(1)
print("ok")
sys.exit(0)
