# C16 defect 1: a normally-ending covergroup construction that uses
# vsc.cross(..., iff=<expression>) leaves the iff expression on the shared
# expression stack; the next inline randomization adopts it as a constraint.
import sys
import vsc


@vsc.randobj
class Item:
    def __init__(self):
        self.x = vsc.rand_uint8_t()


@vsc.covergroup
class CG:
    def __init__(self):
        self.with_sample(dict(a=vsc.uint8_t(), b=vsc.uint8_t()))
        self.cp_a = vsc.coverpoint(self.a, bins=dict(v=vsc.bin_array([], [0, 3])))
        self.cp_b = vsc.coverpoint(self.b, bins=dict(v=vsc.bin_array([], [0, 3])))
        self.ab = vsc.cross([self.cp_a, self.cp_b], iff=(self.b == 1))


def inline_call(o):
    """x < 10 on an otherwise unconstrained 8-bit field: always satisfiable"""
    try:
        with o.randomize_with() as it:
            it.x < 10
    except vsc.SolveFailure:
        return "SolveFailure"
    return "ok" if o.x < 10 else "wrong value %d" % o.x


o = Item()
before = inline_call(o)

cg = CG()            # ends normally

after_1 = inline_call(o)
after_2 = inline_call(o)

print("expected: randomize_with(x < 10) succeeds before and after CG() is built")
print("got     : before CG(): %s ; 1st call after CG(): %s ; 2nd call after CG(): %s" % (
    before, after_1, after_2))

if before == "ok" and after_1 == "ok" and after_2 == "ok":
    print("PASS: construction state was idle after the covergroup was built")
    sys.exit(0)
else:
    print("DEFECT: the cross 'iff' expression (b == 1, b is the covergroup's sample "
          "field with value 0) was left on the expression stack and became a "
          "constraint of an unrelated randomize_with call")
    sys.exit(1)
