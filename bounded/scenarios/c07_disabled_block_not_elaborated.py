#!/usr/bin/env python
"""C07 defect 2: a block that is switched OFF is still pre-processed
(foreach/array-subscript expansion, dist lowering) on every randomize call, so
content that cannot be elaborated for the current object state makes the call
raise although the block is not supposed to take part in it.

Clause: "Switching a block off removes it from the next and all later calls
until it is switched on again".
"""
import sys
import vsc
from vsc.model.solve_failure import SolveFailure

bad = []


# --- trigger A: fixed subscript, list currently shorter -------------------
@vsc.randobj
class Burst(object):
    def __init__(self):
        self.a = vsc.rand_bit_t(8)
        self.l = vsc.rand_list_t(vsc.bit_t(8), sz=4)

    @vsc.constraint
    def last_c(self):
        # only meaningful for bursts of >= 4 beats
        self.l[3] == 7


b = Burst()
b.randomize()
assert b.l[3] == 7
b.last_c.constraint_mode(False)          # short bursts: switch the block off
b.l.clear()
b.l.append(0)
print("A: expected: randomize() succeeds with 'last_c' off and a 1-element list")
try:
    b.randomize()
    print("A: got     : ok, l =", list(b.l))
except SolveFailure:
    raise
except Exception as e:
    print("A: got     : %s: %s" % (type(e).__name__, e))
    bad.append("A: disabled block still expanded by ArrayConstraintBuilder (%s)" % type(e).__name__)


# --- trigger B: dist whose (non-rand) weights are currently all zero -------
@vsc.randobj
class Mix(object):
    def __init__(self):
        self.a = vsc.rand_bit_t(8)
        self.w0 = vsc.uint8_t(0)
        self.w1 = vsc.uint8_t(0)

    @vsc.constraint
    def mix_c(self):
        vsc.dist(self.a, [vsc.weight(1, self.w0), vsc.weight(2, self.w1)])


m = Mix()
m.mix_c.constraint_mode(False)
print("B: expected: randomize() succeeds with 'mix_c' off (weights not configured yet)")
try:
    m.randomize()
    print("B: got     : ok, a =", int(m.a))
except SolveFailure:
    raise
except Exception as e:
    print("B: got     : %s: %s" % (type(e).__name__, e))
    bad.append("B: disabled block still lowered by DistConstraintBuilder (%s)" % type(e).__name__)

if bad:
    print("DEFECT PRESENT:")
    for x in bad:
        print("  -", x)
    sys.exit(1)
print("OK: behaviour matches the property")
sys.exit(0)
