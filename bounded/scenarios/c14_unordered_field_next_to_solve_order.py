#!/usr/bin/env python
"""
C14 defect 2: a random field that shares a constraint set with fields named in
vsc.solve_order(), but is not itself named in a solve_order, is never steered:
it only ever receives the solver's default model value.

Clause: "Every value that a random field takes in at least one solution of the
active constraints has non-zero probability of being produced".
"""
import sys, io, contextlib
import vsc

N = 1000


@vsc.randobj
class Item(object):
    def __init__(self):
        self.a = vsc.rand_bit_t(4)
        self.b = vsc.rand_bit_t(4)
        self.c = vsc.rand_bit_t(4)

    @vsc.constraint
    def ab_c(self):
        vsc.solve_order(self.a, self.b)
        self.a < self.b
        self.c != self.b


@vsc.randobj
class ItemNoOrder(object):
    """Same constraints without the solve_order: reference behaviour"""
    def __init__(self):
        self.a = vsc.rand_bit_t(4)
        self.b = vsc.rand_bit_t(4)
        self.c = vsc.rand_bit_t(4)

    @vsc.constraint
    def ab_c(self):
        self.a < self.b
        self.c != self.b


def feasible_c(obj):
    ret = []
    for v in range(16):
        try:
            with contextlib.redirect_stdout(io.StringIO()):
                with obj.randomize_with() as it:
                    it.c == v
            ret.append(v)
        except Exception:
            pass
    return ret


def draw(cls):
    obj = cls()
    obj.set_randstate(vsc.RandState.mkFromSeed(7))
    seen = {}
    for _ in range(N):
        obj.randomize()
        assert int(obj.a) < int(obj.b) and int(obj.c) != int(obj.b)
        seen[int(obj.c)] = seen.get(int(obj.c), 0) + 1
    return seen


legal = feasible_c(Item())
ref = draw(ItemNoOrder)
got = draw(Item)
missing = [v for v in legal if v not in got]

print("legal values of c (each solvable with 'c == v'): %s" % legal)
print("expected: every one of them appears in %d randomize() calls" % N)
print("reference without solve_order, distinct c values: %d" % len(ref))
print("got with solve_order(a, b): c histogram = %s" % dict(sorted(got.items())))
print("never produced: %s" % missing)

if len(missing) > 0:
    print("DEFECT PRESENT: c is starved as soon as a solve_order exists in its constraint set")
    sys.exit(1)
print("ok")
sys.exit(0)
