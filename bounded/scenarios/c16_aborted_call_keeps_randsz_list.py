"""C16: "After any API call ends - ... with an exception raised by user code inside ... a pre/post_randomize callback - ... the
object's model carries no leftover": a random-size list keeps exactly its elements when a later call is aborted by an
exception in the owner's pre_randomize (also after an earlier call was aborted in post_randomize)."""
import sys
import vsc
class Boom(Exception): pass
@vsc.randobj
class P(object):
    def __init__(self):
        self.l = vsc.randsz_list_t(vsc.uint8_t())
        self.arm = False
    @vsc.constraint
    def c(self):
        self.l.size.inside(vsc.rangelist((2,6)))
    def pre_randomize(self):
        if self.arm: raise Boom()
p = P()
with p.randomize_with() as it: it.l.size == 2
with p.randomize_with() as it: it.l.size == 5
before = list(p.l)
p.arm = True
try: p.randomize()
except Boom: pass
ok1 = list(p.l) == before
print("history 1: expected", before, "got", list(p.l))
# post raises in call N, pre raises in call N+1
@vsc.randobj
class Q(object):
    def __init__(self):
        self.l = vsc.randsz_list_t(vsc.uint8_t())
        self.arm_pre = False; self.arm_post = False
    @vsc.constraint
    def c(self):
        self.l.size.inside(vsc.rangelist((2,6)))
    def pre_randomize(self):
        if self.arm_pre: raise Boom()
    def post_randomize(self):
        if self.arm_post: raise Boom()
q = Q()
with q.randomize_with() as it: it.l.size == 2
q.arm_post = True
try:
    with q.randomize_with() as it: it.l.size == 5
except Boom: pass
q.arm_post = False
before = list(q.l)
q.arm_pre = True
try: q.randomize()
except Boom: pass
ok2 = list(q.l) == before
print("history 2: expected", before, "got", list(q.l))
sys.exit(0 if ok1 and ok2 else 1)
