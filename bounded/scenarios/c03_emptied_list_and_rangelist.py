#!/usr/bin/env python
# C03 / defect 1: membership in a non-random list (or a mutable rangelist) that
# has been emptied between calls is treated as TRUE ('in') / FALSE ('not_inside')
# instead of contributing its (empty) content.
import sys, io, contextlib
import vsc

@vsc.randobj
class InList(object):
    def __init__(self):
        self.a = vsc.rand_uint8_t()
        self.nl = vsc.list_t(vsc.uint8_t(), init=[1, 2, 3])
    @vsc.constraint
    def c(self):
        self.a in self.nl

@vsc.randobj
class NotInList(object):
    def __init__(self):
        self.a = vsc.rand_uint8_t()
        self.nl = vsc.list_t(vsc.uint8_t(), init=[1, 2, 3])
    @vsc.constraint
    def c(self):
        self.a.not_inside(self.nl)

@vsc.randobj
class InRangelist(object):
    def __init__(self):
        self.a = vsc.rand_uint8_t()
        self.rl = vsc.rangelist(5, (10, 12))
    @vsc.constraint
    def c(self):
        self.a in self.rl

def call(o):
    """returns 'ok' or 'fail'"""
    try:
        with contextlib.redirect_stdout(io.StringIO()):
            o.randomize()
        return "ok"
    except vsc.SolveFailure:
        return "fail"

bad = []

# --- 'in' a non-random list
o = InList()
assert call(o) == "ok" and o.a in (1, 2, 3)
o.nl.clear()                      # content changed between calls: now empty
r = call(o)
print("a in <empty non-random list>   : expected solve failure (no value is a member), got %s (a=%d)" % (r, o.a))
if r != "fail":
    bad.append("in-empty-list")
o.nl.append(9)                    # sanity: content is honoured again once non-empty
assert call(o) == "ok" and o.a == 9

# --- 'not_inside' a non-random list
o = NotInList()
assert call(o) == "ok" and o.a not in (1, 2, 3)
o.nl.clear()
r = call(o)
print("a not_inside <empty list>      : expected success (every value is outside), got %s" % r)
if r != "ok":
    bad.append("not_inside-empty-list")

# --- mutable rangelist
o = InRangelist()
assert call(o) == "ok" and o.a in (5, 10, 11, 12)
o.rl.clear()
r = call(o)
print("a in <cleared rangelist>       : expected solve failure, got %s (a=%d)" % (r, o.a))
if r != "fail":
    bad.append("in-cleared-rangelist")
o.rl.append((20, 21))
assert call(o) == "ok" and o.a in (20, 21)

if bad:
    print("DEFECT PRESENT:", bad)
    sys.exit(1)
print("no defect")
sys.exit(0)
