#!/usr/bin/env python
"""C11 defect 1: a cross that is bound to the covergroup before its coverpoints
(or that crosses coverpoints which are not themselves attributes of the
covergroup) cannot be built: covergroup construction dies with 'KeyError: None'.

Clause: "A cross has one bin per combination of its coverpoints' bins, named and
ordered after them."  The cross below is a perfectly ordinary 2x2 cross; the only
unusual thing is the order of the attribute assignments in __init__.
"""
import sys, io, contextlib, traceback
import vsc


def cross_bins(cg_idx=0, cross_idx=0):
    with contextlib.redirect_stdout(io.StringIO()):
        rpt = vsc.get_coverage_report_model()
    return [(b.name, b.count) for b in rpt.covergroups[cg_idx].crosses[cross_idx].bins]


@vsc.covergroup
class cg(object):
    def __init__(self):
        self.with_sample(dict(a=vsc.uint8_t(), b=vsc.uint8_t()))
        cp_a = vsc.coverpoint(self.a, bins={"lo": vsc.bin([0, 5]), "hi": vsc.bin([6, 9])})
        cp_b = vsc.coverpoint(self.b, bins={"x": vsc.bin(0), "y": vsc.bin(1)})
        # the cross is bound first, the coverpoints right after it
        self.ab = vsc.cross([cp_a, cp_b])
        self.cp_a = cp_a
        self.cp_b = cp_b


expected = [("<lo,x>", 1), ("<lo,y>", 0), ("<hi,x>", 0), ("<hi,y>", 1)]
print("expected cross bins after sample(4,0), sample(7,1):", expected)
try:
    c = cg()
    c.sample(4, 0)
    c.sample(7, 1)
    got = cross_bins()
except Exception as e:
    traceback.print_exc()
    print("got: exception %r while building/sampling the covergroup" % (e,))
    print("DEFECT PRESENT")
    sys.exit(1)

print("got:", got)
if got != expected:
    print("DEFECT PRESENT")
    sys.exit(1)
print("ok")
sys.exit(0)
