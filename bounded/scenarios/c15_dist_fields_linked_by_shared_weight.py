#!/usr/bin/env python
# C15 defect 1: two dist constraints that share a NON-RANDOM weight variable:
# the first field silently loses its weights (its dist is forgotten when the
# solve sets are merged) although nothing else constrains it.
import random, sys
import vsc
from collections import Counter

random.seed(20240115)

@vsc.randobj
class Item:
    def __init__(self):
        self.a = vsc.rand_uint8_t()
        self.b = vsc.rand_uint8_t()
        self.w = vsc.uint8_t(1)          # non-random weight "knob"

    @vsc.constraint
    def c(self):
        # value 1 has weight w (=1), value 2 has weight 999
        vsc.dist(self.a, [vsc.weight(1, self.w), vsc.weight(2, 999)])
        vsc.dist(self.b, [vsc.weight(1, self.w), vsc.weight(2, 999)])

N = 1000
o = Item()
ca = Counter(); cb = Counter()
for i in range(N):
    o.randomize()
    ca[o.a] += 1
    cb[o.b] += 1

print("a and b are each constrained only by: dist {1 := 1, 2 := 999}")
print("expected : value 1 with probability 1/1000 for both fields "
      "(about 1 of %d draws; more than 50 is impossible in practice)" % N)
print("got      : a -> %s" % dict(sorted(ca.items())))
print("           b -> %s" % dict(sorted(cb.items())))

bad = ca[1] > 50 or cb[1] > 50
if bad:
    print("DEFECT: a dist field does not follow its weights (weight/total)")
    sys.exit(1)
print("ok")
sys.exit(0)
