#!/usr/bin/env python
# C18 defect 4: list append/extend/index assignment on a *signed* element type only masks the value;
#   it is not re-interpreted as two's complement when stored. __getitem__/__iter__ patch the sign on
#   the way out, but every other read path (str(), .sum, .product, 'in') sees the raw unsigned value,
#   i.e. a value outside the declared type, and different from what indexing returns.
#   clause: "assignments (... list append/extend/index assignment ...) reduce the value modulo
#            2^width and, for signed types, re-interpret it as two's complement, and the same value
#            is observed through ... list indexing and iteration" /
#           "Reading a field always yields a value inside its declared type"
import sys
import vsc


@vsc.randobj
class Item(object):
    def __init__(self):
        self.l = vsc.list_t(vsc.int8_t(), sz=2)
        self.r = vsc.rand_list_t(vsc.int8_t(), sz=2)

    @vsc.constraint
    def c(self):
        self.r[0] == -1
        self.r[1] == -56


fails = []


def check(what, got, exp):
    ok = (got == exp)
    print("%-40s expected %-12r got %-12r %s" % (what, exp, got, "ok" if ok else "MISMATCH"))
    if not ok:
        fails.append(what)


it = Item()
it.l[0] = -1          # index assignment
it.l[1] = 200         # == -56 as int8
it.l.append(-3)       # append

check("[l[0], l[1], l[2]]", [int(it.l[0]), int(it.l[1]), int(it.l[2])], [-1, -56, -3])
check("list(l)", list(it.l), [-1, -56, -3])
check("str(l)", str(it.l), "[-1, -56, -3]")
check("l.sum", it.l.sum, -60)
check("l[0] in l", (it.l[0] in it.l), True)
check("-56 in l", (-56 in it.l), True)
check("255 in l  (255 is not an int8 value)", (255 in it.l), False)

# reference: the same values produced by the solver are stored signed, and all paths agree
it.randomize()
check("reference: str(r) after randomize", str(it.r), "[-1, -56]")
check("reference: r.sum after randomize", it.r.sum, -57)
check("reference: -1 in r after randomize", (-1 in it.r), True)

if fails:
    print("DEFECT PRESENT: signed list elements are stored un-reinterpreted (%d mismatches)" % len(fails))
    sys.exit(1)
print("no defect")
sys.exit(0)
