#!/usr/bin/env python
# C10 defect 1: a bin_array specification shared by two coverpoints is trimmed
# in place by the ignore_bins of the first coverpoint; the second coverpoint
# (which has no ignore/illegal bins) silently loses those values as well.
import sys
import vsc

@vsc.covergroup
class cg_shared(object):
    def __init__(self):
        self.with_sample(dict(a=vsc.bit_t(4), b=vsc.bit_t(4)))
        common = dict(
            lo=vsc.bin_array([2], [0, 7]),     # expected {0..3} {4..7}
            hi=vsc.bin_array([], [8, 11]))     # expected {8} {9} {10} {11}
        self.cp_a = vsc.coverpoint(self.a, bins=common,
                                   ignore_bins=dict(ig=vsc.bin(4, 9)))
        self.cp_b = vsc.coverpoint(self.b, bins=common)   # no ignore bins here

c = cg_shared()
for v in range(16):
    c.sample(v, v)

def hits(cp):
    m = cp.get_model()
    return [m.get_bin_hits(i) for i in range(m.get_n_bins())]

# cp_a: 4 and 9 removed before partitioning: {0,1,2} {3,5,6,7} {8} {10} {11}
exp_a = [3, 4, 1, 1, 1]
# cp_b: nothing is ignored: {0..3} {4..7} {8} {9} {10} {11}
exp_b = [4, 4, 1, 1, 1, 1]
got_a = hits(c.cp_a)
got_b = hits(c.cp_b)
print("cp_a (ignore 4,9) expected %s got %s" % (exp_a, got_a))
print("cp_b (no ignore)  expected %s got %s" % (exp_b, got_b))
if got_a == exp_a and got_b == exp_b:
    print("OK")
    sys.exit(0)
print("DEFECT: cp_b lost the values ignored by cp_a (samples 4 and 9 %s)" %
      ("not counted in any cp_b bin" if sum(got_b) < 12 else "mis-binned"))
sys.exit(1)
