#!/usr/bin/env python
"""C11 defect 2: a cross whose own iff is a conjunction/disjunction of two
comparisons raises TypeError on every sample() instead of gating the cross.

Clause: "On each sample where the cross's own iff and every crossed coverpoint's
iff hold and every crossed coverpoint hit a bin, exactly the cross bin of that
combination is incremented by one; otherwise no cross bin changes."
"""
import sys, io, contextlib, traceback
import vsc


def cross_bins(cg_idx=0, cross_idx=0):
    with contextlib.redirect_stdout(io.StringIO()):
        rpt = vsc.get_coverage_report_model()
    return {b.name: b.count for b in rpt.covergroups[cg_idx].crosses[cross_idx].bins}


@vsc.covergroup
class cg(object):
    def __init__(self):
        self.with_sample(dict(a=vsc.uint8_t(), b=vsc.uint8_t(),
                              va=vsc.bit_t(1), vb=vsc.bit_t(1)))
        self.cp_a = vsc.coverpoint(self.a, bins={"a": vsc.bin_array([], [0, 3])})
        self.cp_b = vsc.coverpoint(self.b, bins={"b": vsc.bin_array([], [0, 3])})
        # sample the cross only when both halves are valid
        self.ab = vsc.cross([self.cp_a, self.cp_b],
                            iff=((self.va == 1) & (self.vb == 1)))


samples = [(1, 1, 1, 1), (2, 3, 1, 0), (3, 0, 0, 1), (0, 2, 1, 1), (1, 1, 0, 0)]
expected = {}
for a in range(4):
    for b in range(4):
        expected["<a[%d],b[%d]>" % (a, b)] = 0
for (a, b, va, vb) in samples:
    if va == 1 and vb == 1:
        expected["<a[%d],b[%d]>" % (a, b)] += 1
print("expected non-zero cross bins:", {k: v for k, v in expected.items() if v})

try:
    c = cg()
    for s in samples:
        c.sample(*s)
    got = cross_bins()
except Exception as e:
    traceback.print_exc()
    print("got: exception %r from sample()" % (e,))
    print("DEFECT PRESENT")
    sys.exit(1)

print("got non-zero cross bins:", {k: v for k, v in got.items() if v})
if got != expected:
    print("DEFECT PRESENT")
    sys.exit(1)
print("ok")
sys.exit(0)
