#!/usr/bin/env python
"""C02 defect 4: comparing a random field with an element of a NON-random list
(constant subscript, outside foreach) crashes with
    TypeError: 'ValueScalar' object is not callable

Clause violated: "A satisfiable system never fails and never raises any other
exception from inside the library".
"""
import sys, io, contextlib, traceback
import vsc


@vsc.randobj
class Item:
    def __init__(self):
        self.a = vsc.rand_uint8_t()
        self.limits = vsc.list_t(vsc.uint8_t(), sz=3)     # plain, non-random list

    @vsc.constraint
    def c(self):
        self.a < self.limits[1]


def main():
    o = Item()
    o.limits[0] = 10
    o.limits[1] = 20
    o.limits[2] = 30
    print("case    : non-rand list limits=[10,20,30]; constraint a < limits[1]")
    print("expected: randomize() returns a value a < 20")
    buf = io.StringIO()
    try:
        with contextlib.redirect_stdout(buf):
            o.randomize()
    except vsc.SolveFailure:
        print("got     : SolveFailure")
        print("DEFECT PRESENT (satisfiable system failed)")
        return 1
    except Exception as e:
        print("got     : %s: %s" % (type(e).__name__, e))
        tb = traceback.extract_tb(e.__traceback__)
        print("          raised at %s:%d in %s" % (tb[-1].filename, tb[-1].lineno, tb[-1].name))
        print("DEFECT PRESENT: a satisfiable system raised a non-SolveFailure exception from inside the library")
        return 1
    print("got     : a=%d" % o.a)
    if o.a < 20:
        print("no defect")
        return 0
    print("DEFECT PRESENT (value violates constraint)")
    return 1


if __name__ == "__main__":
    sys.exit(main())
