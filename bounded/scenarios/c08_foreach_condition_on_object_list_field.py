#!/usr/bin/env python
"""C08 defect 1: a condition on a field of a NON-random object-list element, used
inside a foreach, is evaluated on the wrong field of that element (the element's
last field) instead of the field named by the attribute path.

Clause: "each reference denotes the field of the specific sub-object instance
named by its attribute path or index".
"""
import sys
import vsc


@vsc.randobj
class Cfg(object):
    def __init__(self, en=0, mode=0):
        self.en = vsc.uint8_t(en)       # non-random configuration fields
        self.mode = vsc.uint8_t(mode)   # alphabetically last -> last field of the model


@vsc.randobj
class Top(object):
    def __init__(self):
        # non-random list of configuration objects (state), populated by the user
        self.cfgs = vsc.list_t(Cfg())
        self.cfgs.append(Cfg(en=1, mode=0))
        self.cfgs.append(Cfg(en=0, mode=1))
        self.cfgs.append(Cfg(en=1, mode=1))
        self.vals = vsc.rand_list_t(vsc.uint8_t(), 3)

    @vsc.constraint
    def vals_c(self):
        with vsc.foreach(self.cfgs, idx=True) as i:
            with vsc.if_then(self.cfgs[i].en == 1):
                self.vals[i] == 200
            with vsc.else_then:
                self.vals[i] < 100


def main():
    t = Top()
    en = [c.en for c in t.cfgs]
    mode = [c.mode for c in t.cfgs]
    bad = []
    for n in range(10):
        t.randomize()
        v = [int(x) for x in t.vals]
        ok = all((v[i] == 200) if en[i] == 1 else (v[i] < 100) for i in range(3))
        if not ok:
            bad.append(v)
    print("cfgs[i].en   =", en)
    print("cfgs[i].mode =", mode)
    print("expected: vals[i]==200 exactly where cfgs[i].en==1 -> pattern [200, <100, 200]")
    if bad:
        print("got     : %d/10 calls violate it, e.g. vals=%s" % (len(bad), bad[0]))
        follows_mode = all(all((v[i] == 200) == (mode[i] == 1) for i in range(3)) for v in bad)
        print("          (the results follow cfgs[i].mode instead: %s)" % follows_mode)
        print("DEFECT PRESENT")
        return 1
    print("got     : all calls conform")
    return 0


if __name__ == "__main__":
    try:
        rc = main()
    except Exception as e:
        print("unexpected exception: %s: %s" % (type(e).__name__, e))
        rc = 1
    sys.exit(rc)
