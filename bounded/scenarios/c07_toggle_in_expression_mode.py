#!/usr/bin/env python
"""C07 defect 1: in 'expression mode' obj.<constraint> resolves to the per-CLASS
constraint_t wrapper instead of the per-instance block, so constraint_mode()
lands on (a) whichever instance was built most recently and (b) every instance
created later, and NOT on the instance it was called on.

Clause: "toggling on one instance never affects another instance of the same
class, including instances created later and instances held in lists or inside
other objects."

Trigger A (natural): a subclass switches an inherited block off in its own
  constructor; instances of it are created lazily by rand_list_t(..., sz=N)
  while the parent's model is being built (library-internal expression mode).
Trigger B: constraint_mode() called inside a 'with obj.randomize_with()' body.
"""
import sys
import vsc

N = 12
bad = []


def draws(o, n=N):
    s = set()
    for _ in range(n):
        o.randomize()
        s.add(int(o.a))
    return s


# ---------------------------------------------------------------- trigger A
@vsc.randobj
class Item(object):
    def __init__(self):
        self.a = vsc.rand_bit_t(16)

    @vsc.constraint
    def c(self):
        self.a == 5


@vsc.randobj
class RelaxedItem(Item):
    def __init__(self):
        super().__init__()
        # switch the inherited block off for THIS instance only
        self.c.constraint_mode(False)


@vsc.randobj
class Parent(object):
    def __init__(self):
        self.items = vsc.rand_list_t(RelaxedItem(), sz=2)


before = Item()
p = Parent()          # elements are created while Parent's model is built
p.randomize()
after = Item()        # plain Item created later: never toggled

s_after = draws(after)
s_before = draws(before)
print("A: expected a==5 on every call for a plain Item created after Parent()")
print("A: got      ", sorted(s_after)[:6], "..." if len(s_after) > 6 else "")
if s_after != {5}:
    bad.append("A: Item created later has block 'c' off although it was never toggled")
if s_before != {5}:
    bad.append("A: Item created earlier lost block 'c'")


# ---------------------------------------------------------------- trigger B
@vsc.randobj
class Pkt(object):
    def __init__(self):
        self.a = vsc.rand_bit_t(16)

    @vsc.constraint
    def c(self):
        self.a == 5


x = Pkt()
y = Pkt()
with x.randomize_with() as it:
    x.c.constraint_mode(False)     # toggle x ...
    it.a < 60000
z = Pkt()                          # created later, never toggled

s_x, s_y, s_z = draws(x), draws(y), draws(z)
print("B: toggled x.c off inside 'with x.randomize_with()'")
print("B: expected x free (many values), y=={5}, z=={5}")
print("B: got      x:%s y:%s z:%s" % (
    "{5}" if s_x == {5} else "%d values" % len(s_x),
    "{5}" if s_y == {5} else "%d values" % len(s_y),
    "{5}" if s_z == {5} else "%d values" % len(s_z)))
if s_y != {5}:
    bad.append("B: other instance y lost block 'c'")
if s_z != {5}:
    bad.append("B: later-created instance z has block 'c' off")
if s_x == {5}:
    bad.append("B: the toggled instance x still enforces 'c'")

if bad:
    print("DEFECT PRESENT:")
    for b in bad:
        print("  -", b)
    sys.exit(1)
print("OK: behaviour matches the property")
sys.exit(0)
