#!/usr/bin/env python
"""C02 defect 5: a constraint statement that (after expansion) references no
field at all is silently dropped instead of being evaluated.

Clause violated: "an unsatisfiable one never returns normally with values".

RandInfoBuilder.visit_constraint_stmt_leave only files a statement under the
rand-set of the fields it references; with no field reference there is no
rand-set and the statement is discarded ("TODO: handle no-reference
constraint"), even if it is constant false.
"""
import sys, io, contextlib
import vsc


@vsc.randobj
class IndexOnly:
    """foreach over 3 elements requiring every index to be < 2: false for i==2"""
    def __init__(self):
        self.l = vsc.rand_list_t(vsc.uint8_t(), sz=3)

    @vsc.constraint
    def c(self):
        with vsc.foreach(self.l, idx=True) as i:
            i < 2


@vsc.randobj
class EmptySum:
    """the sum of an empty list is 0, it can not be 5"""
    def __init__(self):
        self.a = vsc.rand_uint8_t()
        self.l = vsc.rand_list_t(vsc.uint8_t(), sz=0)

    @vsc.constraint
    def c(self):
        self.l.sum == 5


@vsc.randobj
class EmptySumRandSz:
    def __init__(self):
        self.l = vsc.randsz_list_t(vsc.uint8_t())

    @vsc.constraint
    def c(self):
        self.l.size == 0
        self.l.sum == 5


def run(cls):
    o = cls()
    buf = io.StringIO()
    try:
        with contextlib.redirect_stdout(buf):
            o.randomize()
    except vsc.SolveFailure:
        return "SolveFailure"
    return "returned normally, l=%s" % list(o.l)


def main():
    bad = 0
    for name, cls in (
            ("3-element list; foreach idx i: i < 2   (false for i == 2)", IndexOnly),
            ("empty fixed-size list; l.sum == 5", EmptySum),
            ("random-size list; l.size == 0; l.sum == 5", EmptySumRandSz)):
        got = run(cls)
        print("case    : %s" % name)
        print("expected: SolveFailure")
        print("got     : %s" % got)
        if got != "SolveFailure":
            bad += 1
    if bad:
        print("DEFECT PRESENT: %d unsatisfiable systems returned normally" % bad)
        return 1
    print("no defect")
    return 0


if __name__ == "__main__":
    sys.exit(main())
