#!/usr/bin/env python
# C03 defect 3: inside a foreach, an if_then/else_then whose condition only
# involves NON-random operands is constant-folded by a partial evaluator that
# computes the wrong value for several expression kinds:
#   (a)  ~(nonrand == lit)            -> the negation is dropped
#   (b)  nonrand[7:4] == lit          -> the part-select evaluates to the literal '4'
#   (c)  nonrand_obj_list[i].f == lit -> evaluates to an unrelated value
# so the non-random field / non-random list does not contribute the value it
# has at the time of the call.
#
# Clause: "In constraints those fields, mutable rangelists and non-random lists
# contribute the value or content they have at the time of the call, so
# changing them between calls changes the solution space accordingly."
import sys
import vsc


@vsc.randobj
class Elem:
    def __init__(self):
        self.x = vsc.uint8_t(1)
        self.y = vsc.uint8_t(2)


@vsc.randobj
class Top:
    def __init__(self):
        self.k = vsc.uint8_t(1)                      # non-random scalar
        self.ol = vsc.list_t(Elem())                 # non-random list of objects
        self.r_not = vsc.rand_list_t(vsc.uint8_t(), 3)
        self.r_psel = vsc.rand_list_t(vsc.uint8_t(), 3)
        self.r_obj = vsc.rand_list_t(vsc.uint8_t(), 3)

    @vsc.constraint
    def c(self):
        with vsc.foreach(self.r_not, idx=True) as i:
            with vsc.if_then(~(self.k == 1)):
                self.r_not[i] == 10
            with vsc.else_then:
                self.r_not[i] == 20
            with vsc.if_then(self.k[7:4] == 0):
                self.r_psel[i] == 10
            with vsc.else_then:
                self.r_psel[i] == 20
            with vsc.if_then(self.ol[i].x == 7):
                self.r_obj[i] == 70
            with vsc.else_then:
                self.r_obj[i] == 0


t = Top()
t.set_randstate(vsc.RandState.mkFromSeed(1))
for i in range(3):
    e = Elem()
    e.x = 7 if i == 1 else 3
    t.ol.append(e)

bad = False

def check(tag, got, exp):
    global bad
    ok = (got == exp)
    print("%-44s expected %-14s got %-14s %s" % (tag, exp, got, "" if ok else "<-- WRONG"))
    if not ok:
        bad = True

for k in (1, 2, 0x10):
    t.k = k
    t.randomize()
    check("k=%d: ~(k == 1) ? 10 : 20" % k, list(t.r_not), [20] * 3 if k == 1 else [10] * 3)
    check("k=%d: (k[7:4] == 0) ? 10 : 20" % k, list(t.r_psel), [10] * 3 if (k >> 4) == 0 else [20] * 3)
    check("k=%d: (ol[i].x == 7) ? 70 : 0, ol.x=[3,7,3]" % k, list(t.r_obj), [0, 70, 0])

# change the content of the non-random list between calls
t.ol[0].x = 7
t.ol[1].x = 0
t.randomize()
check("ol.x=[7,0,3]: (ol[i].x == 7) ? 70 : 0", list(t.r_obj), [70, 0, 0])

if bad:
    print("DEFECT PRESENT: conditions over non-random operands folded to the wrong constant")
    sys.exit(1)
print("OK")
sys.exit(0)
