#!/usr/bin/env python
# C03 defect 2: a rand-sized list (vsc.randsz_list_t) that lives in a
# NON-random sub-object (vsc.attr(...)) is resized and refilled by the
# parent's randomize() call.
#
# Clause: "every field of a non-random sub-object ... keep exactly the
# in-range values they held before the call"
import sys
import vsc


@vsc.randobj
class Sub:
    def __init__(self):
        self.l = vsc.randsz_list_t(vsc.uint8_t())
        self.x = vsc.rand_uint8_t(3)

    @vsc.constraint
    def size_c(self):
        self.l.size.inside(vsc.rangelist((1, 8)))


@vsc.randobj
class Top:
    def __init__(self):
        self.a = vsc.rand_uint8_t()
        self.sub = vsc.attr(Sub())      # declared NON-random

    @vsc.constraint
    def c(self):
        self.a < 10


t = Top()
t.set_randstate(vsc.RandState.mkFromSeed(1))
t.sub.l.append(11)
t.sub.l.append(22)

expected = ([11, 22], 2, 3)
seen = set()
problem = None
for i in range(20):
    try:
        t.randomize()
        cur = (list(t.sub.l), t.sub.l.size, t.sub.x)
    except Exception as e:   # inconsistent list (size != number of elements), etc.
        problem = "exception %s: %s" % (type(e).__name__, e)
        break
    seen.add((tuple(cur[0]), cur[1], cur[2]))
    if cur != expected:
        problem = "after call %d: sub.l == %s, sub.l.size == %d, sub.x == %d" % (
            i + 1, cur[0], cur[1], cur[2])
        break

print("expected: t.sub.l stays [11, 22] (size 2) and t.sub.x stays 3 over 20 t.randomize() calls")
if problem is not None:
    print("got     : " + problem)
    print("DEFECT PRESENT: list inside a non-random sub-object was randomized")
    sys.exit(1)
print("got     : unchanged")
sys.exit(0)
