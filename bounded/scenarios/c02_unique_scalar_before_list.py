"""C02 demo: SolveFailure must be raised exactly when the hard constraints
are unsatisfiable.

Programs: one scalar (or one list) named BEFORE a list in vsc.unique(...).
Satisfiability is decided exhaustively over the random fields' value space
and compared with what randomize() does.

Exit 0: every call agreed with the exhaustive verdict.
Exit 1: some call disagreed (returned values for an unsatisfiable system,
        failed on a satisfiable one, or raised a foreign exception).
"""
import itertools
import sys

import vsc


def make_scalar_then_list(n_vals, n_elems, a_rand, a_val):
    @vsc.randobj
    class C(object):
        def __init__(self):
            self.a = vsc.rand_uint8_t()
            self.l = vsc.rand_list_t(vsc.uint8_t(), sz=n_elems)

        @vsc.constraint
        def dom_c(self):
            self.a < n_vals
            with vsc.foreach(self.l, idx=True) as i:
                self.l[i] < n_vals

        @vsc.constraint
        def uniq_c(self):
            vsc.unique(self.a, self.l)

    c = C()
    if not a_rand:
        with vsc.raw_mode():
            c.a.rand_mode = False
        c.a = a_val
    return c


def make_list_then_list(n_vals, n0, n1):
    @vsc.randobj
    class C(object):
        def __init__(self):
            self.l0 = vsc.rand_list_t(vsc.uint8_t(), sz=n0)
            self.l1 = vsc.rand_list_t(vsc.uint8_t(), sz=n1)

        @vsc.constraint
        def dom_c(self):
            with vsc.foreach(self.l0, idx=True) as i:
                self.l0[i] < n_vals
            with vsc.foreach(self.l1, idx=True) as i:
                self.l1[i] < n_vals

        @vsc.constraint
        def uniq_c(self):
            vsc.unique(self.l0, self.l1)

    return C()


def exhaustive_sat(n_vals, n_rand, fixed):
    """Is there an assignment of n_rand fields in 0..n_vals-1 that, together
    with the fixed (non-random) values, is pairwise distinct?"""
    for t in itertools.product(range(n_vals), repeat=n_rand):
        vals = list(fixed) + list(t)
        if len(set(vals)) == len(vals):
            return True
    return False


def observe(obj):
    try:
        obj.randomize()
        return "ok"
    except vsc.SolveFailure:
        return "SolveFailure"
    except Exception as e:
        return "other:" + type(e).__name__


def main():
    bad = 0
    n = 0

    # scalar, then list
    for n_vals, n_elems in [(2, 2), (3, 2), (3, 3), (4, 3)]:
        # random scalar
        sat = exhaustive_sat(n_vals, n_elems + 1, [])
        c = make_scalar_then_list(n_vals, n_elems, True, 0)
        for _ in range(4):
            n += 1
            got = observe(c)
            vals = [int(c.a)] + [int(x) for x in c.l]
            exp = "ok" if sat else "SolveFailure"
            ok = (got == exp)
            if not ok:
                bad += 1
                print("MISMATCH unique(a, l) dom=0..%d len=%d: expected %s, "
                      "got %s vals=%s" % (n_vals - 1, n_elems, exp, got, vals))
        # non-random scalar holding a value inside the domain
        for a_val in range(n_vals):
            sat = exhaustive_sat(n_vals, n_elems, [a_val])
            c = make_scalar_then_list(n_vals, n_elems, False, a_val)
            for _ in range(2):
                n += 1
                got = observe(c)
                vals = [int(c.a)] + [int(x) for x in c.l]
                exp = "ok" if sat else "SolveFailure"
                ok = (got == exp)
                if not ok:
                    bad += 1
                    print("MISMATCH unique(a, l) a=%d (non-rand) dom=0..%d len=%d: "
                          "expected %s, got %s vals=%s" % (
                              a_val, n_vals - 1, n_elems, exp, got, vals))

    # list, then list
    for n_vals, n0, n1 in [(3, 2, 2), (4, 2, 2), (2, 1, 2)]:
        sat = exhaustive_sat(n_vals, n0 + n1, [])
        c = make_list_then_list(n_vals, n0, n1)
        for _ in range(4):
            n += 1
            got = observe(c)
            vals = [int(x) for x in c.l0] + [int(x) for x in c.l1]
            exp = "ok" if sat else "SolveFailure"
            ok = (got == exp)
            if not ok:
                bad += 1
                print("MISMATCH unique(l0, l1) dom=0..%d len=%d,%d: expected %s, "
                      "got %s vals=%s" % (n_vals - 1, n0, n1, exp, got, vals))

    print("%d calls, %d disagree with the exhaustive verdict" % (n, bad))
    return 1 if bad else 0


if __name__ == "__main__":
    sys.exit(main())
