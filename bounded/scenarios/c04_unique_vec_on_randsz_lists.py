"""
C04 defect 8: unique_vec compares the pre-extended lists, not the lists that
are finally exposed, when its arguments are random-size lists.

Clause: "... unique, unique_vec, size ... constraints hold when evaluated over
exactly the elements the list exposes."

Both lists have 1-bit elements, their first element is 0 and their size is
1 or 2.  Whenever both sizes come out as 1 the exposed lists are [0] and [0].
"""
import sys
import vsc


@vsc.randobj
class C(object):
    def __init__(self):
        self.l1 = vsc.randsz_list_t(vsc.bit_t(1))
        self.l2 = vsc.randsz_list_t(vsc.bit_t(1))

    @vsc.constraint
    def c(self):
        self.l1.size.inside(vsc.rangelist(1, 2))
        self.l2.size.inside(vsc.rangelist(1, 2))
        self.l1[0] == 0
        self.l2[0] == 0
        vsc.unique_vec(self.l1, self.l2)


def main():
    c = C()
    n_calls = 100
    bad = []
    for k in range(n_calls):
        c.randomize()
        a = [int(x) for x in c.l1]
        b = [int(x) for x in c.l2]
        if a == b:
            bad.append((k, a, b))
    print("expected: after every successful randomize(), list(l1) != list(l2)")
    if bad:
        print("got     : %d of %d calls produced identical lists, e.g. call %d: l1=%s l2=%s" % (
            (len(bad), n_calls) + bad[0]))
        print("DEFECT PRESENT")
        return 1
    print("got     : the lists always differ")
    return 0


if __name__ == "__main__":
    sys.exit(main())
