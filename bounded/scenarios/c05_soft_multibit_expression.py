#!/usr/bin/env python
"""C05 defect 2: vsc.soft() on an expression that is wider than one bit
(e.g. `flags & 4`, legal and working as a hard constraint, where it means
`!= 0`) makes randomize() fail with a BoolectorException.

Property clause: "Soft constraints never turn a satisfiable hard-constraint
system into a failure".
"""
import sys, traceback
import vsc


@vsc.randobj
class Hard(object):
    def __init__(self):
        self.flags = vsc.rand_uint8_t()

    @vsc.constraint
    def c(self):
        self.flags & 4


@vsc.randobj
class Soft(object):
    def __init__(self):
        self.flags = vsc.rand_uint8_t()

    @vsc.constraint
    def c(self):
        self.flags < 16          # the only hard constraint; trivially satisfiable
        vsc.soft(self.flags & 4)


@vsc.randobj
class SoftGuarded(object):
    def __init__(self):
        self.flags = vsc.rand_uint8_t()
        self.en = vsc.rand_bit_t(1)

    @vsc.constraint
    def c(self):
        self.en == 1
        with vsc.if_then(self.en == 1):
            vsc.soft(self.flags & 4)


def main():
    rc = 0
    h = Hard()
    for _ in range(5):
        h.randomize()
        assert (h.flags & 4) != 0
    print("control: hard constraint `flags & 4` works (flags=%d)" % h.flags)

    for cls in (Soft, SoftGuarded):
        print("%s: expected: randomize() succeeds and (flags & 4) != 0" % cls.__name__)
        o = cls()
        try:
            for _ in range(5):
                o.randomize()
                if (o.flags & 4) == 0:
                    print("got     : flags=%d, soft constraint not honoured" % o.flags)
                    rc = 1
            if rc == 0:
                print("got     : flags=%d" % o.flags)
        except Exception as e:
            traceback.print_exc(limit=-2)
            print("got     : %s: %s" % (type(e).__name__, str(e).strip()))
            rc = 1
    print("DEFECT PRESENT" if rc else "ok")
    return rc


if __name__ == "__main__":
    sys.exit(main())
