#!/usr/bin/env python
"""C06 defect 5: a randomize_with call that dies while its inline constraints
are being elaborated leaves the per-call rewrite of the CLASS constraints
behind; the next (plain) randomize() call then solves against the stale
expansion and violates a class constraint.

Clause: "Constraints written inside a randomize_with block are conjoined with
the object's class constraints for that call only and leave no trace on later
calls."
"""
import random, sys, traceback
import vsc

random.seed(1)

@vsc.randobj
class C:
    def __init__(self):
        self.l = vsc.rand_list_t(vsc.uint8_t(), 4)

    @vsc.constraint
    def all_three(self):
        with vsc.foreach(self.l) as e:
            e == 3

bad = []

def run(with_failed_call):
    c = C()
    c.randomize()
    if with_failed_call:
        try:
            with c.randomize_with() as it:
                it.l[10] == 0           # user error: index out of range
            print("   (inline call unexpectedly succeeded)")
        except Exception as e:
            print("   inline call raised %s: %s" % (type(e).__name__, e))
    c.l.append(0)                      # list now has 5 elements
    c.randomize()                      # a later, unrelated call
    return list(c.l)

print("[control: no failed call in between]")
got = run(False)
print("   expected: [3, 3, 3, 3, 3]\n   got     : %s" % got)
if got != [3] * 5:
    bad.append("control")

print("[a failed randomize_with call in between] (3 independent trials)")
for trial in range(3):
    got = run(True)
    print("   expected: [3, 3, 3, 3, 3] (class constraint 'every element == 3')\n   got     : %s  -> %s" % (
        got, "ok" if got == [3] * 5 else "VIOLATION"))
    if got != [3] * 5:
        bad.append("after failed call (trial %d)" % trial)

if bad:
    print("DEFECT PRESENT:", bad)
    sys.exit(1)
print("no defect")
sys.exit(0)
