"""C09 defect 3: randomize_with() adopts whatever expressions are pending on the
process-wide expression list when the block is entered.
 (a) Randomizing ANOTHER object with randomize_with inside the body of a block
     steals the outer block's constraints (the outer object loses them, the other
     object gets them).
 (b) An expression left behind by earlier, unrelated activity (a comparison made on
     another object in vsc.raw_mode()) is injected into the next randomize_with of
     any object, consumes its random state and shifts its sequence.

Property clause: "the sequence of values an object produces is identical across
... unrelated activity (other objects' randomizations, ...)".
"""
import sys, io, contextlib
import vsc


@vsc.randobj
class Item:
    def __init__(self):
        self.a = vsc.rand_uint8_t()
        self.b = vsc.rand_uint8_t()

    @vsc.constraint
    def ab(self):
        self.a < self.b


def run_nested(where):
    o = Item(); o.set_randstate(vsc.RandState.mkFromSeed(4))
    x = Item(); x.set_randstate(vsc.RandState.mkFromSeed(9))
    seq = []
    for _ in range(6):
        if where == "before":
            with x.randomize_with() as xt:
                xt.b > 5
        try:
            with contextlib.redirect_stdout(io.StringIO()):
                with o.randomize_with() as it:
                    it.b < 100
                    if where == "inside":
                        with x.randomize_with() as xt:     # other object's randomization
                            xt.b > 5
                    it.a > 3
        except Exception as e:
            seq.append("EXC %s" % type(e).__name__)
        seq.append((o.a, o.b))
    return seq


def run_stale(stale):
    o = Item(); o.set_randstate(vsc.RandState.mkFromSeed(4))
    y = Item()
    seq = []
    for i in range(6):
        if stale:
            with vsc.raw_mode():
                flag = (y.a < 5)               # unrelated activity on another object
        if i % 2:
            with o.randomize_with() as it:
                it.b < 100
        else:
            o.randomize()
        seq.append((o.a, o.b))
    return seq


bad = False
ref = run_nested("before"); got = run_nested("inside")
print("(a) expected: same sequence for o wherever x is randomized, every o.b < 100")
print("    x randomized before the block:", ref)
print("    x randomized inside the block:", got)
if ref != got:
    print("    DEFECT: the nested randomize_with took over the outer block's constraint")
    bad = True

ref = run_stale(False); got = run_stale(True)
print("(b) expected: same sequence for o with or without the unrelated raw-mode comparison on y")
print("    without:", ref)
print("    with   :", got)
if ref != got:
    print("    DEFECT: a stale expression of another object leaked into o's randomize_with")
    bad = True

sys.exit(1 if bad else 0)
