#!/usr/bin/env python
"""C02 defect 1: foreach / unique on a random-size list constrain every
*allocated* element, not just the elements inside the solved size.

Clause violated: "A satisfiable system never fails".

The list is pre-extended to the largest size the bounds on `size` admit; the
foreach body (and vsc.unique) is then expanded over all of those elements with
no `i < size` guard, while `size` itself is solved in a separate rand-set.
So a system that is satisfiable with a *smaller* size raises SolveFailure.
"""
import sys, io, contextlib
import vsc


@vsc.randobj
class Ascending:
    """1..4 strictly ascending bytes, all >= 254.  Satisfiable: [254], [255],
    [254,255].  (Sizes 3 and 4 are impossible, so size must be 1 or 2.)"""
    def __init__(self):
        self.l = vsc.randsz_list_t(vsc.uint8_t())

    @vsc.constraint
    def c(self):
        self.l.size >= 1
        self.l.size <= 4
        with vsc.foreach(self.l, idx=True) as i:
            self.l[i] >= 254
            with vsc.if_then(i > 0):
                self.l[i] > self.l[i-1]


@vsc.randobj
class UniqueSmallDomain:
    """up to 8 distinct values out of {0,1,2,3}.  Satisfiable with size<=4."""
    def __init__(self):
        self.l = vsc.randsz_list_t(vsc.uint8_t())

    @vsc.constraint
    def c(self):
        self.l.size <= 8
        with vsc.foreach(self.l, idx=True) as i:
            self.l[i] < 4
        vsc.unique(self.l)


def attempt(cls, check):
    o = cls()
    buf = io.StringIO()
    try:
        with contextlib.redirect_stdout(buf):
            o.randomize()
    except vsc.SolveFailure:
        return "SolveFailure"
    except Exception as e:          # noqa
        return "exception %s: %s" % (type(e).__name__, e)
    vals = list(o.l)
    return ("ok %s" % vals) if check(vals) else ("bad values %s" % vals)


def main():
    bad = 0
    cases = [
        ("ascending bytes >=254, size in 1..4 (solutions: [254] [255] [254,255])",
         Ascending,
         lambda v: 1 <= len(v) <= 4 and all(x >= 254 for x in v)
                   and all(v[k] > v[k-1] for k in range(1, len(v)))),
        ("unique values <4, size <= 8 (any size 0..4 has solutions)",
         UniqueSmallDomain,
         lambda v: len(v) <= 8 and all(x < 4 for x in v) and len(set(v)) == len(v)),
    ]
    for name, cls, check in cases:
        got = attempt(cls, check)
        print("case    : %s" % name)
        print("expected: randomize() returns a solution (system is satisfiable)")
        print("got     : %s" % got)
        if not got.startswith("ok"):
            bad += 1
    if bad:
        print("DEFECT PRESENT: satisfiable random-size-list systems raised SolveFailure")
        return 1
    print("no defect")
    return 0


if __name__ == "__main__":
    sys.exit(main())
