#!/usr/bin/env python
"""C01 defect 4: membership in an EMPTY set holds for every value.  When the
non-random list (or the mutable vsc.rangelist) on the right-hand side of
'inside' has no element at the time of the call, the constraint is built as the
constant 'true' and the field gets an arbitrary value.

Clause: "... satisfy every enabled hard constraint ... (... in/rangelist ...)".
Nothing is inside an empty set (SystemVerilog: 'x inside {}' is false), so a
call that returns normally cannot satisfy the constraint.
"""
import sys
import vsc


@vsc.randobj
class Pick(object):
    def __init__(self):
        self.allowed = vsc.list_t(vsc.uint16_t())     # not random, filled by the test bench
        self.ranges = vsc.rangelist((10, 19))         # documented 'mutable rangelist'
        self.v = vsc.rand_uint16_t()
        self.w = vsc.rand_uint16_t()

    @vsc.constraint
    def v_c(self):
        self.v.inside(self.allowed)

    @vsc.constraint
    def w_c(self):
        self.w.inside(self.ranges)


def main():
    present = False
    p = Pick()
    p.set_randstate(vsc.RandState.mkFromSeed(3))

    p.allowed.extend([5, 7])
    p.randomize()
    print("sanity      : allowed=[5, 7] ranges=[10..19]  ->  v=%d w=%d" % (p.v, p.w))
    if p.v not in (5, 7) or not (10 <= p.w <= 19):
        print("unexpected: sanity case fails")
        return 1

    # 1. the list of allowed values runs empty
    p.allowed.clear()
    print("case 1      : v.inside(allowed), allowed == []")
    print("expected    : no value is inside an empty list: the call must not return normally")
    try:
        p.randomize()
        print("got         : returned v=%d with allowed=%s" % (p.v, [int(x) for x in p.allowed]))
        present = True
    except vsc.SolveFailure:
        print("got         : SolveFailure")

    # 2. the mutable rangelist is cleared
    p.allowed.append(5)
    p.ranges.clear()
    print("case 2      : w.inside(ranges), ranges cleared")
    print("expected    : no value is inside an empty rangelist: the call must not return normally")
    try:
        p.randomize()
        print("got         : returned w=%d with an empty rangelist" % p.w)
        present = True
    except vsc.SolveFailure:
        print("got         : SolveFailure")

    if present:
        print("DEFECT PRESENT")
        return 1
    return 0


if __name__ == "__main__":
    sys.exit(main())
