#!/usr/bin/env python
"""C02 defect 2: list.sum of a random-size list is not tied to the size that is
being solved.

Clauses violated:
  (a) "an unsatisfiable one never returns normally with values"
  (b) "A satisfiable system never fails"

The sum expression is expanded over a snapshot of the list (the value the
`size` field happens to hold when the expression is first expanded), and
`size` is put in a rand-set of its own, solved without looking at the sum
constraint.
"""
import sys, io, contextlib
import vsc


@vsc.randobj
class Plain:
    def __init__(self):
        self.l = vsc.randsz_list_t(vsc.uint8_t())


@vsc.randobj
class NeedsFullSize:
    """size <= 8 and sum == 8*255: the only solution is eight times 255."""
    def __init__(self):
        self.l = vsc.randsz_list_t(vsc.uint8_t())

    @vsc.constraint
    def c(self):
        self.l.size <= 8
        self.l.sum == 8*255


def quiet(fn):
    buf = io.StringIO()
    with contextlib.redirect_stdout(buf):
        return fn()


def part_a():
    """two bytes can never add up to 600"""
    o = Plain()

    def first():
        with o.randomize_with() as it:
            it.l.size == 3
    quiet(first)                      # leaves a 3-element list behind

    def second():
        with o.randomize_with() as it:
            it.l.size == 2
            it.l.sum == 600
    print("case (a): list holds 3 elements; randomize_with { size == 2; sum == 600 }")
    print("expected: SolveFailure (2 bytes add up to at most 510)")
    try:
        quiet(second)
    except vsc.SolveFailure:
        print("got     : SolveFailure")
        return False
    vals = list(o.l)
    print("got     : returned normally with l=%s (sum=%d)" % (vals, sum(vals)))
    return True


def part_b():
    n = 40
    fails = 0
    other = 0
    for _ in range(n):
        o = NeedsFullSize()
        try:
            quiet(o.randomize)
            if list(o.l) != [255]*8:
                other += 1
        except vsc.SolveFailure:
            fails += 1
    print("case (b): size <= 8; sum == 2040   (unique solution [255]*8), %d fresh objects" % n)
    print("expected: 0 SolveFailure")
    print("got     : %d SolveFailure, %d wrong results" % (fails, other))
    return fails > 0


def main():
    a = part_a()
    b = part_b()
    if a or b:
        print("DEFECT PRESENT: (a) unsat returned normally = %s, (b) sat failed = %s" % (a, b))
        return 1
    print("no defect")
    return 0


if __name__ == "__main__":
    sys.exit(main())
