"""
C16 defect 3: on SolveFailure, Randomizer.randomize only disposes the solver
variables of the fields that are members of a randset.  RandSetNodeBuilder,
however, also builds a solver node for *every* element (and the size field) of
any list that a constraint refers to as a whole - e.g. the list in 'l[1] == b'.
Those nodes survive the failed call (FieldScalarModel.var stays set) and are
picked up by later calls:
  (a) a later call that constrains such an element hands the stale node, which
      belongs to the Boolector instance of the failed call, to a new solver ->
      BoolectorException instead of a result;
  (b) a later call in which the element is unconstrained still runs
      FieldScalarModel.post_randomize on it, which reads the stale node's
      assignment from the (unsatisfiable) solver of the failed call ->
      BoolectorException on every later call (or, if that solver happened to
      be SAT, the element is frozen at its old value).

Clause violated: "the object's model carries no leftover temporary constraints
or solver handles. Every later construction or randomization therefore behaves
exactly as in a session where the failed call never happened".
"""
import sys
import vsc


@vsc.randobj
class Sub:
    def __init__(self):
        self.l = vsc.rand_list_t(vsc.uint32_t(), 4)


@vsc.randobj
class Top:
    def __init__(self):
        self.b = vsc.uint8_t(5)
        self.s = vsc.rand_attr(Sub())

    @vsc.constraint
    def c(self):
        self.s.l[1] == self.b


def session(fail, later):
    t = Top()
    t.set_randstate(vsc.RandState.mkFromSeed(3))
    t.s.set_randstate(vsc.RandState.mkFromSeed(4))
    t.randomize()
    if fail:
        try:
            with t.randomize_with() as it:
                it.s.l[1] == 6              # contradicts l[1] == b -> SolveFailure
        except vsc.SolveFailure:
            pass
    after_fail = list(t.s.l)

    if later == "constrain":
        # (a) constrain another element of the list
        try:
            with t.randomize_with() as it:
                it.s.l[0] < it.s.l[1]
        except vsc.SolveFailure:
            return "SolveFailure"
        except Exception as e:
            return "%s: %s" % (type(e).__name__, str(e).strip().split("\n")[-1])
        return "ok" if t.s.l[0] < t.s.l[1] == 5 else "wrong result %s" % str(list(t.s.l))
    else:
        # (b) randomize the sub-object on its own, five times: all four
        # elements are unconstrained 32-bit values
        seen = []
        for i in range(5):
            try:
                t.s.randomize()
            except Exception as e:
                return "call %d: %s: %s" % (i, type(e).__name__, str(e).strip().split("\n")[-1])
            seen.append(list(t.s.l))
        frozen = [i for i in range(4) if all(s[i] == after_fail[i] for s in seen)]
        return frozen


bad = False

r = session(False, "constrain")
print("(a) clean session            : later call ->", r)
assert r == "ok"
r = session(True, "constrain")
print("(a) session with SolveFailure: later call ->", r)
print("    expected: ok")
if r != "ok":
    bad = True

r = session(False, "free")
print("(b) clean session            : elements that never change over 5 later calls:", r)
assert r == []
r = session(True, "free")
print("(b) session with SolveFailure: elements that never change over 5 later calls:", r)
print("    expected: [] (four unconstrained 32-bit values, five draws)")
if r != []:
    print("    got     : see above (a list means: these elements keep the value they had when the failed call ended)")
    bad = True

sys.exit(1 if bad else 0)
