#!/usr/bin/env python
# C03 / defect 3: <non-random list>.sum keeps the expansion of the list made
# during the previous call (ExprDynamicModel.cached_expr). After the list is
# changed between calls, bound inference evaluates the OLD content, so a
# random-size list bounded by the sum is prepared for the old sum: the call
# "succeeds" with size == new sum but the list does not hold that many elements.
import sys, io, contextlib
import vsc

@vsc.randobj
class Item(object):
    def __init__(self):
        self.nl = vsc.list_t(vsc.uint8_t(), init=[1])
        self.rl = vsc.randsz_list_t(vsc.uint8_t())
    @vsc.constraint
    def c(self):
        self.rl.size == self.nl.sum

def call(o):
    with contextlib.redirect_stdout(io.StringIO()):
        o.randomize()

def state(o):
    size = o.rl.size
    try:
        elems = list(o.rl)
    except IndexError:
        # count the elements that really exist
        elems = []
        i = 0
        while True:
            try:
                elems.append(int(o.rl[i])); i += 1
            except IndexError:
                break
    return size, elems

bad = False
o = Item()
call(o)
size, elems = state(o)
print("call 1, nl=[1]      : rl.size=%d, elements=%s" % (size, elems))
assert size == 1 and len(elems) == 1

o.nl.append(3)                 # non-random list changed between calls: sum is now 4
try:
    call(o)
    size, elems = state(o)
    print("call 2, nl=[1,3]    : expected rl.size=4 with 4 elements; got rl.size=%d with %d element(s) %s" % (size, len(elems), elems))
    if size != 4 or len(elems) != 4:
        bad = True
except Exception as e:
    print("call 2, nl=[1,3]    : expected rl.size=4 with 4 elements; got %s: %s" % (type(e).__name__, e))
    bad = True

# the same thing with the list assigned as a whole
o2 = Item()
call(o2)
o2.nl = [2, 2, 2]
try:
    call(o2)
    size, elems = state(o2)
    print("assign nl=[2,2,2]   : expected rl.size=6 with 6 elements; got rl.size=%d with %d element(s)" % (size, len(elems)))
    if size != 6 or len(elems) != 6:
        bad = True
except Exception as e:
    print("assign nl=[2,2,2]   : got %s: %s" % (type(e).__name__, e))
    bad = True

if bad:
    print("DEFECT PRESENT")
    sys.exit(1)
print("no defect")
sys.exit(0)
