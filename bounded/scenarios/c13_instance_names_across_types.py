"""C13 defect 5: an explicitly named covergroup instance is renamed in the report and in
the XML when an instance of a *different* covergroup type carries the same name."""
import sys, io, contextlib
import vsc
from ucis.xml.xml_factory import XmlFactory
from ucis.report.coverage_report_builder import CoverageReportBuilder


@vsc.covergroup
class cg_rx(object):
    def __init__(self, name):
        self.with_sample(dict(a=vsc.bit_t(2)))
        self.options.name = name
        self.cp = vsc.coverpoint(self.a)


@vsc.covergroup
class cg_tx(object):
    def __init__(self, name):
        self.with_sample(dict(b=vsc.bit_t(1)))
        self.options.name = name
        self.cp = vsc.coverpoint(self.b)


rx = cg_rx("port0")
tx = cg_tx("port0")
rx.sample(1)
tx.sample(0)

mem = {"cg_rx": [rx.get_model().name], "cg_tx": [tx.get_model().name]}

with contextlib.redirect_stdout(io.StringIO()):
    rpt = vsc.get_coverage_report_model()
    txt = vsc.get_coverage_report()
    vsc.write_coverage_db("defect_5.xml")
xml_rpt = CoverageReportBuilder.build(XmlFactory.read("defect_5.xml"))

got_rpt = {t.name: [i.name for i in t.covergroups] for t in rpt.covergroups}
got_xml = {t.name: [i.name for i in t.covergroups] for t in xml_rpt.covergroups}
got_txt = [l.split()[1] for l in txt.splitlines() if l.strip().startswith("INST")]

print("instance names held in memory :", mem)
print("report model                  :", got_rpt)
print("text report INST lines        :", got_txt)
print("XML read back                 :", got_xml)
print("expected: the single instance of each type is called 'port0' everywhere")

bad = (got_rpt != mem) or (got_xml != mem) or (got_txt != ["port0", "port0"])
if bad:
    print("DEFECT PRESENT")
    sys.exit(1)
print("ok")
sys.exit(0)
