#!/usr/bin/env python
"""C08 defect 3: a part-select of an element field inside a foreach
(it.x[3:0] == 5) loses the field reference: the expanded constraint becomes
the literal comparison (0 == 5), which references no variable and is silently
dropped.  The same part-select on an explicitly indexed element outside a
foreach (self.l[1].x[3:0]) works.

Clause: "each reference denotes the field of the specific sub-object instance
named by its attribute path or index".
"""
import sys
import io
import contextlib
import vsc


@vsc.randobj
class Elem(object):
    def __init__(self):
        self.x = vsc.rand_uint8_t()


@vsc.randobj
class Top(object):
    def __init__(self):
        self.l = vsc.rand_list_t(Elem(), 3)

    @vsc.constraint
    def c(self):
        with vsc.foreach(self.l) as it:
            it.x[3:0] == 5
            it.x[7:4] == 2


@vsc.randobj
class Ref(object):
    """Control: same constraint with explicit indices, no foreach"""
    def __init__(self):
        self.l = vsc.rand_list_t(Elem(), 3)

    @vsc.constraint
    def c(self):
        self.l[0].x[3:0] == 5
        self.l[0].x[7:4] == 2
        self.l[1].x[3:0] == 5
        self.l[1].x[7:4] == 2
        self.l[2].x[3:0] == 5
        self.l[2].x[7:4] == 2


def main():
    # (the library prints a debug line for each slice; keep the output readable)
    with contextlib.redirect_stdout(io.StringIO()):
        t = Top()
        r = Ref()
    bad = []
    ctrl_bad = []
    for n in range(10):
        t.randomize()
        r.randomize()
        v = [e.x for e in t.l]
        if v != [0x25] * 3:
            bad.append(v)
        v = [e.x for e in r.l]
        if v != [0x25] * 3:
            ctrl_bad.append(v)
    print("expected: every element x == 0x25 (low nibble 5, high nibble 2)")
    print("control (explicit indices, no foreach): %s" % ("ok" if not ctrl_bad else "FAILS %s" % ctrl_bad[0]))
    if bad:
        print("got     : %d/10 calls violate it, e.g. x=%s" % (len(bad), [hex(x) for x in bad[0]]))
        print("DEFECT PRESENT")
        return 1
    print("got     : all calls conform")
    return 0


if __name__ == "__main__":
    try:
        rc = main()
    except Exception as e:
        print("unexpected exception: %s: %s" % (type(e).__name__, e))
        rc = 1
    sys.exit(rc)
