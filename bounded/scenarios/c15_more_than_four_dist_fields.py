#!/usr/bin/env python
# C15 defect 3: more than four random fields in one solve set: only four of
# them are steered per call, the dist fields that are left out take whatever
# the solver returns, so their weights are not followed.
import random, sys
import vsc
from collections import Counter

random.seed(20240315)
NF = 6

def mk(w1, w2):
    @vsc.randobj
    class Item:
        def __init__(self):
            self.en = vsc.uint8_t(1)     # non-random enable
            self.f0 = vsc.rand_uint8_t(); self.f1 = vsc.rand_uint8_t()
            self.f2 = vsc.rand_uint8_t(); self.f3 = vsc.rand_uint8_t()
            self.f4 = vsc.rand_uint8_t(); self.f5 = vsc.rand_uint8_t()

        @vsc.constraint
        def c(self):
            with vsc.if_then(self.en == 1):
                vsc.dist(self.f0, [vsc.weight(1, w1), vsc.weight(2, w2)])
                vsc.dist(self.f1, [vsc.weight(1, w1), vsc.weight(2, w2)])
                vsc.dist(self.f2, [vsc.weight(1, w1), vsc.weight(2, w2)])
                vsc.dist(self.f3, [vsc.weight(1, w1), vsc.weight(2, w2)])
                vsc.dist(self.f4, [vsc.weight(1, w1), vsc.weight(2, w2)])
                vsc.dist(self.f5, [vsc.weight(1, w1), vsc.weight(2, w2)])
    return Item()

N = 400
bad = False
for (w1, w2, rare) in ((1, 999, 1), (999, 1, 2)):
    o = mk(w1, w2)
    cs = [Counter() for i in range(NF)]
    for i in range(N):
        o.randomize()
        for k in range(NF):
            cs[k][getattr(o, "f%d" % k)] += 1
    print("six independent fields, each: dist {1 := %d, 2 := %d} (en == 1, non-random)" % (w1, w2))
    print("expected : value %d with probability 1/1000 for every field "
          "(more than 30 of %d draws is impossible in practice)" % (rare, N))
    for k in range(NF):
        print("got      : f%d -> %s" % (k, dict(sorted(cs[k].items()))))
        illegal = [v for v in cs[k] if v not in (1, 2)]
        if illegal:
            print("           illegal values", illegal); bad = True
        if cs[k][rare] > 30:
            bad = True

if bad:
    print("DEFECT: dist fields beyond the four steered per call ignore their weights")
    sys.exit(1)
print("ok")
sys.exit(0)
