#!/usr/bin/env python
"""C08 defect 4: with the foreach iterator form (`with vsc.foreach(l) as it`),
`it.<name>` does not reach the element's field when <name> is also an
attribute of vsc.types.type_base (width, val, is_signed, ...): a plain Python
value is returned, the comparison is evaluated by Python and the constraint
is silently dropped.  The index form self.l[i].width works.

Clause: "each reference denotes the field of the specific sub-object instance
named by its attribute path or index".
"""
import sys
import vsc


@vsc.randobj
class Rect(object):
    def __init__(self):
        self.width = vsc.rand_uint8_t()
        self.height = vsc.rand_uint8_t()
        self.val = vsc.rand_uint8_t()


@vsc.randobj
class Top(object):
    def __init__(self):
        self.l = vsc.rand_list_t(Rect(), 3)

    @vsc.constraint
    def c(self):
        with vsc.foreach(self.l) as it:
            it.height == 3      # ordinary name: works
            it.width == 7       # collides with type_base.width
            it.val == 9         # collides with type_base.val


@vsc.randobj
class Ref(object):
    """Control: index form"""
    def __init__(self):
        self.l = vsc.rand_list_t(Rect(), 3)

    @vsc.constraint
    def c(self):
        with vsc.foreach(self.l, idx=True) as i:
            self.l[i].height == 3
            self.l[i].width == 7
            self.l[i].val == 9


def main():
    t = Top()
    r = Ref()
    bad = []
    ctrl_bad = []
    for n in range(10):
        t.randomize()
        r.randomize()
        v = [(e.height, e.width, e.val) for e in t.l]
        if v != [(3, 7, 9)] * 3:
            bad.append(v)
        v = [(e.height, e.width, e.val) for e in r.l]
        if v != [(3, 7, 9)] * 3:
            ctrl_bad.append(v)
    print("expected: (height,width,val) == (3,7,9) in every element")
    print("control (self.l[i].width form): %s" % ("ok" if not ctrl_bad else "FAILS %s" % ctrl_bad[0]))
    if bad:
        print("got     : %d/10 calls violate it, e.g. %s" % (len(bad), bad[0]))
        print("          (height is constrained, width and val are not)")
        print("DEFECT PRESENT")
        return 1
    print("got     : all calls conform")
    return 0


if __name__ == "__main__":
    try:
        rc = main()
    except Exception as e:
        print("unexpected exception: %s: %s" % (type(e).__name__, e))
        rc = 1
    sys.exit(rc)
