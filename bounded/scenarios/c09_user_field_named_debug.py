"""C09 defect 1: the 'debug' diagnostic option of randomize_with() is stored in the
user object's own attribute namespace, so it overwrites a user field called
'debug' (same for 'lint' and 'solve_fail_debug').  The values produced then depend
on the diagnostic setting.

Property clause: "the sequence of values an object produces is identical across
... diagnostic settings (debug, solve-failure debug, source-info capture)".
"""
import sys, io, contextlib
import vsc


@vsc.randobj
class Cfg:
    def __init__(self):
        self.debug = vsc.bit_t(1)          # non-random user knob that happens to be called 'debug'
        self.a = vsc.rand_uint8_t()

    @vsc.constraint
    def c(self):
        with vsc.if_then(self.debug == 1):
            self.a < 10
        with vsc.else_then:
            self.a > 200


def run(**kw):
    o = Cfg()
    o.set_randstate(vsc.RandState.mkFromSeed(1))
    o.debug = 1                            # user selects the 'a < 10' mode
    seq = []
    for _ in range(5):
        with contextlib.redirect_stdout(io.StringIO()):   # hide the debug chatter
            with o.randomize_with(**kw) as it:
                it.a != 5
        seq.append((o.debug, o.a))
    return seq


plain = run(debug=0)
dbg = run(debug=1)
print("expected: identical (debug, a) sequences for debug=0 and debug=1, user knob 'debug' stays 1")
print("got debug=0 :", plain)
print("got debug=1 :", dbg)
bad = (plain != dbg) or any(d != 1 for d, _ in plain + dbg)
if bad:
    print("DEFECT: the diagnostic option was written into the user's 'debug' field and changed the results")
    sys.exit(1)
print("ok")
sys.exit(0)
