#!/usr/bin/env python
"""C07 defect 4: a class constraint block whose attribute name starts with
"_int" (e.g. _interval_c, _internal_c, _int_range_c, or a name-mangled
private block __x_c of a class whose name starts with "int") is silently left
out of the instance's model: it is never enforced although its mode is on,
and constraint_mode() on it is a silent no-op.

Clause: "The class constraint blocks enforced on an object are exactly those
most-derived by name in its class hierarchy whose constraint_mode is on for
that instance."
"""
import sys
import vsc

bad = []


@vsc.randobj
class Item(object):
    def __init__(self):
        self.a = vsc.rand_bit_t(16)
        self.b = vsc.rand_bit_t(16)

    @vsc.constraint
    def _interval_c(self):
        self.a == 5

    @vsc.constraint
    def _private_c(self):      # control: same style of name, works
        self.b == 6


x = Item()
sa, sb = set(), set()
for _ in range(12):
    x.randomize()
    sa.add(int(x.a))
    sb.add(int(x.b))
print("expected: a=={5} (block _interval_c is on), b=={6}")
print("got     : a %s, b %s" % (sorted(sa)[:5], sorted(sb)))
if sa != {5}:
    bad.append("block '_interval_c' is on but not enforced")
if sb != {6}:
    bad.append("control block '_private_c' not enforced")

x._interval_c.constraint_mode(True)    # explicit 'on' does not help either
x.randomize()
print("after explicit constraint_mode(True): a =", int(x.a), "(expected 5)")
if x.a != 5:
    bad.append("constraint_mode(True) on '_interval_c' is a silent no-op")


# name-mangled variant
@vsc.randobj
class interrupt_item(object):
    def __init__(self):
        self.a = vsc.rand_bit_t(16)

    @vsc.constraint
    def __valid_c(self):            # becomes _interrupt_item__valid_c
        self.a == 5


y = interrupt_item()
s = set()
for _ in range(12):
    y.randomize()
    s.add(int(y.a))
print("mangled: expected a=={5}; got", sorted(s)[:5])
if s != {5}:
    bad.append("private block __valid_c of class 'interrupt_item' not enforced")

if bad:
    print("DEFECT PRESENT:")
    for m in bad:
        print("  -", m)
    sys.exit(1)
print("OK: behaviour matches the property")
sys.exit(0)
