"""
C16 defect 4: with solve_fail_debug=1 an unsatisfiable call builds its failure
report in Randomizer.create_diagnostics, which re-creates a solver variable for
every field on a second Boolector instance.  create_diagnostics only searches
for conflicting subsets of up to four constraints; when the smallest conflict
needs five or more it raises Exception("internal error: system should solve")
*before* reaching the loop that disposes those variables.  The call therefore
ends with a bare Exception instead of SolveFailure and every field of the
object keeps a handle into the dead solver; each later randomize() of the
object crashes with a BoolectorException - the object is unusable from then on.

Clause violated: "After any API call ends - normally, with SolveFailure, ... -
... the object's model carries no leftover temporary constraints or solver
handles. Every later construction or randomization therefore behaves exactly as
in a session where the failed call never happened".
"""
import sys
import vsc


@vsc.randobj
class Chain:
    def __init__(self):
        self.a = vsc.rand_uint8_t()
        self.b = vsc.rand_uint8_t()
        self.c = vsc.rand_uint8_t()
        self.d = vsc.rand_uint8_t()
        self.e = vsc.rand_uint8_t()

    @vsc.constraint
    def order_c(self):
        self.a < self.b
        self.b < self.c
        self.c < self.d
        self.d < self.e


def later_call(o):
    try:
        o.randomize()
    except Exception as e:
        return "%s: %s" % (type(e).__name__, str(e).strip().split("\n")[-1])
    return "ok" if o.a < o.b < o.c < o.d < o.e else "wrong result"


def session(fail, dbg):
    o = Chain()
    o.set_randstate(vsc.RandState.mkFromSeed(1))
    o.randomize()
    how = None
    if fail:
        try:
            with o.randomize_with(solve_fail_debug=dbg) as it:
                it.e < it.a             # closes the cycle: 5 constraints conflict
            how = "no exception"
        except vsc.SolveFailure:
            how = "SolveFailure"
        except Exception as e:
            how = "%s: %s" % (type(e).__name__, e)
    return how, [later_call(o) for i in range(3)]


bad = False
print("clean session                          : later calls ->", session(False, 0)[1])
how, later = session(True, 0)
print("unsatisfiable call, solve_fail_debug=0 : ended with %s ; later calls -> %s" % (how, later))
if how != "SolveFailure" or later != ["ok"] * 3:
    bad = True
how, later = session(True, 1)
print("unsatisfiable call, solve_fail_debug=1 : ended with %s" % how)
print("                                         later calls -> %s" % later)
print("  expected: ended with SolveFailure ; later calls -> ['ok', 'ok', 'ok']")
if how != "SolveFailure" or later != ["ok"] * 3:
    bad = True
sys.exit(1 if bad else 0)
