#!/usr/bin/env python
# C18 defect 3: iterating a list_t whose model has not been built yet crashes, so the constructor
#   initial values (init=/sz=) cannot be observed through iteration although indexing works.
#   clause: "assignments (... constructor initial values) ... the same value is observed through
#            attribute access, get_val(), list indexing and iteration"
import sys
import vsc

fails = []


def try_iter(what, mk, exp):
    l = mk()
    try:
        got = [v for v in l]          # FIRST access to the list is the iteration
    except Exception as e:
        got = "exception %s: %s" % (type(e).__name__, e)
    ok = (got == exp)
    print("%-55s expected %r got %r %s" % (what, exp, got, "ok" if ok else "MISMATCH"))
    if not ok:
        fails.append(what)
    # the same list, read by index (this builds the model and works)
    l2 = mk()
    by_idx = [int(l2[k]) for k in range(len(l2))]
    print("%-55s expected %r got %r" % ("  ... same list by index", exp, by_idx))


try_iter("iterate list_t(uint8_t(), init=[1, 2, 300])",
         lambda: vsc.list_t(vsc.uint8_t(), init=[1, 2, 300]), [1, 2, 44])
try_iter("iterate list_t(int8_t(), init=[-1, 200])",
         lambda: vsc.list_t(vsc.int8_t(), init=[-1, 200]), [-1, -56])
try_iter("iterate list_t(uint8_t(), sz=3)",
         lambda: vsc.list_t(vsc.uint8_t(), sz=3), [0, 0, 0])

if fails:
    print("DEFECT PRESENT: iteration over a freshly constructed list fails (%d cases)" % len(fails))
    sys.exit(1)
print("no defect")
sys.exit(0)
