#!/usr/bin/env python
"""C02 extra 7: a dist bucket that lies (partly) outside the range of the field
makes randomize() raise BoolectorException instead of picking one of the
reachable buckets.

Clause violated: "A satisfiable system never fails and never raises any other
exception from inside the library".
"""
import sys, io, contextlib
import vsc


@vsc.randobj
class D:
    def __init__(self):
        self.a = vsc.rand_bit_t(4)            # 0..15

    @vsc.constraint
    def c(self):
        vsc.dist(self.a, [vsc.weight(1, 1), vsc.weight((12, 20), 1)])


def main():
    n = 200
    exc = {}
    fails = 0
    vals = set()
    o = D()
    for _ in range(n):
        buf = io.StringIO()
        try:
            with contextlib.redirect_stdout(buf):
                o.randomize()
            vals.add(int(o.a))
        except vsc.SolveFailure:
            fails += 1
        except Exception as e:
            k = "%s: %s" % (type(e).__name__, e)
            exc[k] = exc.get(k, 0) + 1
    print("case    : 4-bit a; dist { 1 := 1, [12..20] := 1 }   (%d calls)" % n)
    print("expected: every call returns a in {1, 12..15}")
    print("got     : values %s, %d SolveFailure, exceptions %s" % (sorted(vals), fails, exc))
    if exc or fails or not vals <= {1, 12, 13, 14, 15}:
        print("DEFECT PRESENT")
        return 1
    print("no defect")
    return 0


if __name__ == "__main__":
    sys.exit(main())
