#!/usr/bin/env python
"""C06 defect 1: a dynamic constraint referenced inside a foreach body is
mis-elaborated: its body is injected as an unconditional hard constraint
(even under '|' or '~'), and the remaining constraints of the call are dropped.

Clause: "A dynamic constraint ... composes under |, & and ~ as a Boolean term"
and "Constraints written inside a randomize_with block are conjoined with the
object's class constraints for that call".
"""
import random, sys, traceback
import vsc

random.seed(1)

@vsc.randobj
class C:
    def __init__(self):
        self.k = vsc.rand_uint8_t()
        self.l = vsc.rand_list_t(vsc.uint8_t(), 3)

    @vsc.dynamic_constraint
    def kd(self):
        self.k == 9

bad = []

def check(name, expected, fn):
    try:
        got, ok = fn()
    except Exception as e:
        traceback.print_exc(limit=-2)
        got, ok = "exception %s: %s" % (type(e).__name__, e), False
    print("[%s]\n   expected: %s\n   got     : %s  -> %s" % (
        name, expected, got, "ok" if ok else "VIOLATION"))
    if not ok:
        bad.append(name)

# A: dynamic constraint as one term of a disjunction, per element
def scen_a():
    c = C()
    res = []
    ok = True
    for _ in range(5):
        with c.randomize_with() as it:
            with vsc.foreach(it.l, idx=True) as i:
                it.kd() | (it.l[i] == 1)
            it.k != 9
        res.append((int(c.k), list(c.l)))
        ok &= (c.k != 9 and list(c.l) == [1, 1, 1])
    return res, ok
check("A: foreach{ kd() | l[i]==1 } ; k != 9",
      "k != 9 and l == [1,1,1] in every call", scen_a)

# B: negated dynamic constraint in a foreach body
def scen_b():
    c = C()
    res = []
    ok = True
    for _ in range(5):
        with c.randomize_with() as it:
            with vsc.foreach(it.l, idx=True) as i:
                ~it.kd()
                it.l[i] == 1
        res.append((int(c.k), list(c.l)))
        ok &= (c.k != 9 and list(c.l) == [1, 1, 1])
    return res, ok
check("B: foreach{ ~kd() ; l[i]==1 }",
      "k != 9 and l == [1,1,1] in every call", scen_b)

# C: plain reference in a foreach body; the sibling constraint must survive
def scen_c():
    c = C()
    res = []
    ok = True
    for _ in range(5):
        with c.randomize_with() as it:
            with vsc.foreach(it.l, idx=True) as i:
                it.kd()
                it.l[i] == 1
        res.append((int(c.k), list(c.l)))
        ok &= (c.k == 9 and list(c.l) == [1, 1, 1])
    return res, ok
check("C: foreach{ kd() ; l[i]==1 }",
      "k == 9 and l == [1,1,1] in every call", scen_c)

# D: dynamic constraint as the consequence of a per-element implication
def scen_d():
    c = C()
    with c.randomize_with() as it:
        with vsc.foreach(it.l, idx=True) as i:
            with vsc.implies(it.l[i] == 1):
                it.kd()
        it.l[1] == 1
    return (int(c.k), list(c.l)), (c.k == 9 and c.l[1] == 1)
check("D: foreach{ l[i]==1 -> kd() } ; l[1]==1",
      "k == 9 and l[1] == 1", scen_d)

if bad:
    print("DEFECT PRESENT:", bad)
    sys.exit(1)
print("no defect")
sys.exit(0)
