#!/usr/bin/env python
# C06 defect 2: inside a foreach body, an if_then / else_if condition that
# contains a reference to a dynamic constraint is folded to a constant taken
# from the LAST statement of the dynamic block only. The other statements of
# the block (and whether they involve random fields) are ignored, so the
# dynamic constraint does not act as the Boolean term "all its statements hold".
import sys
import vsc


@vsc.randobj
class Item(object):
    def __init__(self):
        self.a = vsc.rand_uint8_t()
        self.m1 = vsc.uint8_t(0)      # not random
        self.m2 = vsc.uint8_t(2)      # not random
        self.l = vsc.rand_list_t(vsc.uint8_t(), 3)

    # Purely non-random predicate: false, because m1 == 0
    @vsc.dynamic_constraint
    def mode_ok(self):
        self.m1 == 1
        self.m2 == 2

    # Mixed predicate: depends on the random field a
    @vsc.dynamic_constraint
    def small(self):
        self.a < 5
        self.m2 == 2


def main():
    bad = 0
    it_ = Item()
    it_.set_randstate(vsc.RandState.mkFromSeed(3))

    # Reference: outside a foreach the condition works as a Boolean term
    for n in range(5):
        with it_.randomize_with() as it:
            with vsc.if_then(it.mode_ok()):
                it.l[0] == 0
            with vsc.else_then:
                it.l[0] == 1
        if it_.l[0] != 1:
            print("reference case (no foreach) wrong: l[0]=%d" % it_.l[0])
            bad += 1
            break
    else:
        print("no foreach : if_then(mode_ok()) -> else branch taken, l[0] == 1 (correct)")

    # (a) mode_ok() is false (m1 != 1), so the else branch must hold
    for n in range(5):
        with it_.randomize_with() as it:
            with vsc.foreach(it.l, idx=True) as i:
                with vsc.if_then(it.mode_ok()):
                    it.l[i] == 0
                with vsc.else_then:
                    it.l[i] == 1
        if list(it_.l) != [1, 1, 1]:
            print("in foreach : if_then(mode_ok()) with m1=0,m2=2: expected l == [1, 1, 1] "
                  "(mode_ok is false), got %s" % list(it_.l))
            bad += 1
            break

    # (b) ~small() with a > 5 is true, so l[i] == 5 must hold
    for n in range(5):
        with it_.randomize_with() as it:
            it.a > 5
            with vsc.foreach(it.l, idx=True) as i:
                with vsc.if_then(~it.small()):
                    it.l[i] == 5
        if list(it_.l) != [5, 5, 5]:
            print("in foreach : if_then(~small()) with a=%d: expected l == [5, 5, 5] "
                  "(small is false), got %s" % (it_.a, list(it_.l)))
            bad += 1
            break

    if bad:
        print("DEFECT PRESENT: the dynamic constraint does not compose as a Boolean term")
        return 1
    print("OK")
    return 0


if __name__ == "__main__":
    sys.exit(main())
