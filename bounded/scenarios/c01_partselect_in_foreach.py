#!/usr/bin/env python
"""C01 defect 2: a part-select used inside a foreach constraint is lost.

Clause violated: "the values ... satisfy every enabled hard constraint ...
under the documented SystemVerilog-style meaning of the operators (...
part-select ...)".

`self.l[i][3:0] == 5` inside `vsc.foreach(self.l, idx=True)` is rewritten by
the foreach expansion into the constant constraint `(0 == 5)`, which refers to
no variable and is then silently discarded. randomize() returns normally and
the list elements are completely unconstrained. The same part-select on an
explicitly indexed element outside foreach (`self.l[0][3:0] == 5`) works.
"""
import contextlib
import io
import random
import sys
import vsc


@vsc.randobj
class Item(object):
    def __init__(self):
        self.l = vsc.rand_list_t(vsc.uint8_t(), 4)

    @vsc.constraint
    def c(self):
        with vsc.foreach(self.l, idx=True) as i:
            self.l[i][3:0] == 5


def main():
    random.seed(1)
    # (the library prints a stray debug line 'k=slice(...)' when the
    # part-select is applied to a subscript expression; hide it)
    with contextlib.redirect_stdout(io.StringIO()):
        it = Item()
    it.set_randstate(vsc.RandState.mkFromSeed(1))
    n = 30
    bad = []
    for k in range(n):
        it.randomize()
        elems = [int(v) for v in it.l]
        if not all((v & 0xF) == 5 for v in elems):
            bad.append(elems)

    print("constraint : foreach(l, idx) as i:  l[i][3:0] == 5")
    print("expected   : the low nibble of every element of l is 5 after randomize()")
    print("got        : %d of %d calls returned normally with some (l[i] & 0xF) != 5" % (len(bad), n))
    for elems in bad[:5]:
        print("             l=%s  low nibbles=%s" % (elems, [v & 0xF for v in elems]))
    if len(bad) > 0:
        print("DEFECT PRESENT")
        return 1
    print("ok")
    return 0


if __name__ == "__main__":
    sys.exit(main())
