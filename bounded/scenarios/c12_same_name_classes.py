#!/usr/bin/env python
# C12 defect 1: two DIFFERENT covergroup classes that merely share __name__ (and shape)
# are merged into one "type": get_coverage() of class A reports samples taken by class B.
import sys, io, contextlib
import vsc


def quiet(f, *a):
    # the library prints debug text from get_inst_coverage(); keep output readable
    with contextlib.redirect_stdout(io.StringIO()):
        return f(*a)


def make_class_in_scope_1():
    @vsc.covergroup
    class my_cg(object):                       # e.g. "my_cg" of test-bench component 1
        def __init__(self):
            self.with_sample(dict(a=vsc.bit_t(4)))
            self.cp = vsc.coverpoint(self.a, bins={"x": vsc.bin_array([], [0, 3])})
    return my_cg


def make_class_in_scope_2():
    @vsc.covergroup
    class my_cg(object):                       # unrelated class, same simple name, same bins
        def __init__(self):
            self.with_sample(dict(a=vsc.bit_t(4)))
            self.cp = vsc.coverpoint(self.a, bins={"x": vsc.bin_array([], [0, 3])})
    return my_cg


A = make_class_in_scope_1()
B = make_class_in_scope_2()
assert A is not B

a = A()
b = B()

a.sample(0)                 # class A: exactly one of four bins hit
for v in (1, 2, 3):         # class B: the other three
    b.sample(v)

a_type = quiet(a.get_coverage)
a_inst = quiet(a.get_inst_coverage)
b_type = quiet(b.get_coverage)

print("class A has ONE instance, which saw only value 0 (1 of 4 bins)")
print("expected: A.get_coverage() == 25.0 (type data = sum over A's own instances)")
print("got     : A.get_coverage() == %s  (A.get_inst_coverage() == %s)" % (a_type, a_inst))
print("expected: B.get_coverage() == 75.0 ; got %s" % b_type)

bad = (a_type != 25.0) or (b_type != 75.0)
if bad:
    print("DEFECT: samples of an unrelated covergroup class leaked into this class' type coverage")
    sys.exit(1)
print("OK")
sys.exit(0)
