#!/usr/bin/env python
# C18 defect 2: enum fields are modelled as 32-bit *signed* whatever the enumerator values are.
#   clause: "enum fields hold and return declared enumerators" and
#           "the same value is observed through ... list indexing and iteration"
import sys
from enum import IntEnum
import vsc


class Addr(IntEnum):
    LOW = 0x10
    MID = 0x4000
    TOP = 0x80000000      # perfectly legal IntEnum value, needs bit 31


@vsc.randobj
class Item(object):
    def __init__(self):
        self.a = vsc.rand_enum_t(Addr)


fails = []

# (a) randomization: force the solver to pick Addr.TOP, then read the field back
it = Item()
it.set_randstate(vsc.RandState.mkFromSeed(1))
try:
    with it.randomize_with() as i:
        i.a == Addr.TOP
    got = it.a
    print("randomize_with(a == Addr.TOP); a  expected %r got %r" % (Addr.TOP, got))
    if got != Addr.TOP:
        fails.append("randomize")
except Exception as e:
    print("randomize_with(a == Addr.TOP); a  expected %r got exception %s: %s" % (
        Addr.TOP, type(e).__name__, e))
    fails.append("randomize")

# (b) no randomization at all: indexing and iteration of an enum list disagree
l = vsc.list_t(vsc.enum_t(Addr))
l.append(Addr.LOW)
l.append(Addr.TOP)
by_index = [l[k] for k in range(len(l))]
print("list indexing   expected %r got %r" % ([Addr.LOW, Addr.TOP], by_index))
if by_index != [Addr.LOW, Addr.TOP]:
    fails.append("index")
try:
    by_iter = [e for e in l]
    print("list iteration  expected %r got %r" % ([Addr.LOW, Addr.TOP], by_iter))
    if by_iter != [Addr.LOW, Addr.TOP]:
        fails.append("iter")
except Exception as e:
    print("list iteration  expected %r got exception %s: %s" % (
        [Addr.LOW, Addr.TOP], type(e).__name__, e))
    fails.append("iter")

if fails:
    print("DEFECT PRESENT: enumerator with bit 31 set is not returned (%s)" % ",".join(fails))
    sys.exit(1)
print("no defect")
sys.exit(0)
