#!/usr/bin/env python
"""C06 defect 8 (related to 1 and 3): referencing the dynamic constraint of
every element of an object list from a foreach body - it.l[i].dyn() - makes
the call die with an internal error ("Field l.<unknown-array>[0] not in map").
No "unsupported" diagnostic: the reference is accepted when the constraint is
written, and the same reference with a literal index (it.l[0].dyn()) works.

Clause: "[a dynamic constraint] always constrains the fields of the object
(or list element) through which it was referenced".
"""
import random, sys, traceback
import vsc

random.seed(1)

@vsc.randobj
class E:
    def __init__(self):
        self.x = vsc.rand_uint8_t()

    @vsc.dynamic_constraint
    def small(self):
        self.x < 5

@vsc.randobj
class P:
    def __init__(self):
        self.l = vsc.rand_list_t(E(), 0)
        for _ in range(3):
            self.l.append(E())

    @vsc.dynamic_constraint
    def all_small(self):
        with vsc.foreach(self.l, idx=True) as i:
            self.l[i].small()

bad = []

def check(name, expected, fn):
    try:
        got, ok = fn()
    except Exception as e:
        traceback.print_exc(limit=-2)
        got, ok = "exception %s: %s" % (type(e).__name__, e), False
    print("[%s]\n   expected: %s\n   got     : %s  -> %s" % (
        name, expected, got, "ok" if ok else "VIOLATION"))
    if not ok:
        bad.append(name)

def ctl():
    p = P()
    with p.randomize_with() as it:
        it.l[0].small()
        it.l[1].small()
        it.l[2].small()
    xs = [int(e.x) for e in p.l]
    return xs, all(x < 5 for x in xs)
check("control: literal indices it.l[0..2].small()", "every x < 5", ctl)

def inline():
    p = P()
    with p.randomize_with() as it:
        with vsc.foreach(it.l, idx=True) as i:
            it.l[i].small()
    xs = [int(e.x) for e in p.l]
    return xs, all(x < 5 for x in xs)
check("inline foreach(it.l, idx) { it.l[i].small() }", "every x < 5", inline)

def via_dyn():
    p = P()
    with p.randomize_with() as it:
        it.all_small()
    xs = [int(e.x) for e in p.l]
    return xs, all(x < 5 for x in xs)
check("it.all_small()  (dynamic constraint holding the same foreach)", "every x < 5", via_dyn)

if bad:
    print("DEFECT PRESENT:", bad)
    sys.exit(1)
print("no defect")
sys.exit(0)
