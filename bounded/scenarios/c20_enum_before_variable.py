"""C20 defect 1: solve_order() silently ignores enum-typed fields.

Property clause: "With solve_order(a, b) the values of a are chosen first: every
feasible value of a ... is produced with a probability that does not depend on how
many values of b accompany it, uniform over a's feasible values when these fill
its inferred range."

a is a two-valued enum (both values feasible, they fill a's range):
   a == A  ->  b == 4        (1 accompanying value of b)
   a == B  ->  b != 4        (255 accompanying values of b)
With solve_order(a, b), P(a == A) must be 1/2.  The same class with a declared
as rand_bit_t(1) gives ~1/2; with the enum the ordering is dropped.
"""
import sys, enum, collections
import vsc

class E(enum.IntEnum):
    A = 0
    B = 1

@vsc.randobj
class WithEnum:
    def __init__(self):
        self.a = vsc.rand_enum_t(E)
        self.b = vsc.rand_uint8_t()
    @vsc.constraint
    def c(self):
        vsc.solve_order(self.a, self.b)
        with vsc.if_then(self.a == E.A):
            self.b == 4
        with vsc.else_then:
            self.b != 4

@vsc.randobj
class WithBit:
    def __init__(self):
        self.a = vsc.rand_bit_t(1)
        self.b = vsc.rand_uint8_t()
    @vsc.constraint
    def c(self):
        vsc.solve_order(self.a, self.b)
        with vsc.if_then(self.a == 0):
            self.b == 4
        with vsc.else_then:
            self.b != 4

N = 1000
def count_first(o):
    o.set_randstate(vsc.RandState.mkFromSeed(12345))
    n = 0
    for _ in range(N):
        o.randomize()
        assert (int(o.b) == 4) == (int(o.a) == 0), "constraint violated"
        if int(o.a) == 0:
            n += 1
    return n

n_bit = count_first(WithBit())
n_enum = count_first(WithEnum())
print("draws: %d; expected count of a==first value: about %d (uniform over 2 values)" % (N, N // 2))
print("  a is rand_bit_t(1) : %d" % n_bit)
print("  a is rand_enum_t(E): %d" % n_enum)
# 1000 fair draws: 500 +- 16; anything below 350 is > 9 sigma away
if n_enum < 350 or n_enum > 650:
    print("DEFECT: solve_order(enum, b) has no effect - the distribution of a follows the number of values of b")
    sys.exit(1)
print("OK")
sys.exit(0)
