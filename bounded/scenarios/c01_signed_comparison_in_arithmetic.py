#!/usr/bin/env python
"""C01 defect 6: the 1-bit result of a comparison between two SIGNED operands
is treated as a signed value and sign-extended (true becomes -1) when it is
used in arithmetic.

Clause violated: "the values ... satisfy every enabled hard constraint ...
under the documented SystemVerilog-style meaning of the operators
(comparison, arithmetic, ... Boolean composition)".

In SystemVerilog (and Python) a relational operator yields an unsigned 1-bit
0/1. The usual "at most one of" idiom

    ((s == 1) + (t == 1) + (u == 1)) <= 1

therefore limits the number of true terms to one. With signed fields
(rand_int8_t / rand_int32_t ...) PyVSC sign-extends each true term to
0xFFFFFFFF (-1) and uses a signed '<=', so the constraint becomes
-(count) <= 1, which always holds. randomize() returns normally with two or
three of the terms true. With unsigned fields the very same constraint is
honoured.
"""
import random
import sys
import vsc


def make(signed):
    T = vsc.rand_int8_t if signed else vsc.rand_uint8_t

    @vsc.randobj
    class Item(object):
        def __init__(self):
            self.s = T()
            self.t = T()
            self.u = T()

        @vsc.constraint
        def dom(self):
            self.s.inside(vsc.rangelist(0, 1))
            self.t.inside(vsc.rangelist(0, 1))
            self.u.inside(vsc.rangelist(0, 1))

        @vsc.constraint
        def at_most_one(self):
            ((self.s == 1) + (self.t == 1) + (self.u == 1)) <= 1
    return Item


def trial(cls, n=60):
    it = cls()
    it.set_randstate(vsc.RandState.mkFromSeed(1))
    bad = []
    for k in range(n):
        it.randomize()
        v = (int(it.s), int(it.t), int(it.u))
        if (v[0] == 1) + (v[1] == 1) + (v[2] == 1) > 1:
            bad.append(v)
    return bad


def main():
    random.seed(1)
    n = 60
    ubad = trial(make(False), n)
    sbad = trial(make(True), n)
    print("constraint : ((s == 1) + (t == 1) + (u == 1)) <= 1,   s,t,u in {0,1}")
    print("expected   : at most one of s,t,u equals 1 after every randomize()")
    print("control    : unsigned 8-bit fields -> %d of %d calls violate it" % (len(ubad), n))
    print("got        : signed 8-bit fields   -> %d of %d calls returned normally with 2 or 3 fields equal to 1" % (len(sbad), n))
    for v in sbad[:5]:
        print("             (s,t,u) = %s" % (v,))
    if len(sbad) > 0:
        print("DEFECT PRESENT")
        return 1
    print("ok")
    return 0


if __name__ == "__main__":
    sys.exit(main())
