#!/usr/bin/env python
# C03 defect 5: the variable-bounds analysis treats a directly referenced
# NON-random field (declared non-random, or rand_mode off) as a free variable
# with its full type domain instead of as the constant it is for this call.
# With 'rsz.size == self.n' (n non-random, 32 bit, value 3) the size of the
# rand-sized list is therefore considered unbounded and randomize() aborts
# with "Max size for array ... exceeds 100000", although the only solution is
# size == 3.  Writing the same constant as 'self.n + 0' works.
#
# Clause: "fields declared non-random, fields whose rand_mode is off ... In
# constraints those fields ... contribute the value ... they have at the time
# of the call, so changing them between calls changes the solution space
# accordingly."
import sys
import vsc

bad = []


@vsc.randobj
class NonRand:
    def __init__(self):
        self.n = vsc.uint32_t(3)                     # declared non-random
        self.rsz = vsc.randsz_list_t(vsc.uint8_t())

    @vsc.constraint
    def c(self):
        self.rsz.size == self.n


@vsc.randobj
class RandModeOff:
    def __init__(self):
        self.n = vsc.rand_uint32_t(3)                # rand_mode switched off below
        self.rsz = vsc.randsz_list_t(vsc.uint8_t())

    @vsc.constraint
    def c(self):
        self.rsz.size == self.n


@vsc.randobj
class Control:
    def __init__(self):
        self.n = vsc.uint32_t(3)
        self.rsz = vsc.randsz_list_t(vsc.uint8_t())

    @vsc.constraint
    def c(self):
        self.rsz.size == self.n + 0                  # same constant, spelled as an expression


def run(tag, obj):
    for n in (3, 5):                                 # change the constant between calls
        obj.n = n
        try:
            obj.randomize()
            got = "len(rsz) == %d, n == %d" % (len(obj.rsz), obj.n)
            ok = (len(obj.rsz) == n and obj.n == n)
        except Exception as e:
            got = "%s: %s" % (type(e).__name__, e)
            ok = False
        print("%-12s n=%d: expected len(rsz) == %d, got %s" % (tag, n, n, got))
        if not ok:
            bad.append(tag)
            return


run("control", Control())
run("non-rand", NonRand())
o = RandModeOff()
with vsc.raw_mode():
    o.n.rand_mode = False
run("rand_mode=0", o)

if bad:
    print("DEFECT PRESENT (%s): non-random field not treated as a constant by the bounds analysis" % ",".join(bad))
    sys.exit(1)
print("OK")
sys.exit(0)
