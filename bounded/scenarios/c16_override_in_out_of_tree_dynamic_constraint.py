"""
C16 defect 5: per-call constraint rewrites (foreach expansion, dist lowering)
are installed in place as ConstraintOverrideModel wrappers and are rolled back
at the end of the call by walking the *randomized root objects* only
(Randomizer.do_randomize: 'for fm in field_model_l: rollback(fm)').  When the
inline block of a call refers to a dynamic constraint that belongs to an object
which is not one of the roots of that call (here: the parent's dynamic
constraint used while randomizing only the child), the rewrite inside that
dynamic constraint is never rolled back.  The call ends normally, but the
parent's model now holds the frozen expansion 'l[0] < 4; l[1] < 4' in place of
the foreach, and the next call that uses the dynamic constraint gets the frozen
copy instead of a fresh expansion.

Clause violated: "After any API call ends - normally, ... - ... the object's
model carries no leftover temporary constraints ... Every later construction or
randomization therefore behaves exactly as in a session where the failed call
never happened".
"""
import sys
import vsc


@vsc.randobj
class Child:
    def __init__(self):
        self.l = vsc.rand_list_t(vsc.uint8_t(), 2)


@vsc.randobj
class Parent:
    def __init__(self):
        self.ch = vsc.rand_attr(Child())

    @vsc.dynamic_constraint
    def small(self):
        with vsc.foreach(self.ch.l) as it:
            it < 4


def session(extra_call):
    p = Parent()
    p.set_randstate(vsc.RandState.mkFromSeed(1))
    p.ch.set_randstate(vsc.RandState.mkFromSeed(2))
    if extra_call:
        # Randomize only the child, under the parent's dynamic constraint.
        # The call ends normally.
        with p.ch.randomize_with() as it:
            p.small()
        assert all(e < 4 for e in p.ch.l)

    # The user grows the list, then randomizes the parent with 'small' active
    p.ch.l.append(0)
    p.ch.l.append(0)
    p.ch.l.append(0)
    with p.randomize_with() as it:
        it.small()
    return list(p.ch.l)


bad = False
r = session(False)
print("clean session             : parent.randomize_with(small) ->", r)
assert len(r) == 5 and all(e < 4 for e in r)
r = session(True)
print("session with earlier call : parent.randomize_with(small) ->", r)
print("  expected: five elements, all < 4 (the dynamic constraint applies to every element)")
if not (len(r) == 5 and all(e < 4 for e in r)):
    print("  got     : only the first two elements are constrained - the foreach expansion made for the")
    print("            earlier call (list of 2) is still installed in the parent's dynamic constraint")
    bad = True
sys.exit(1 if bad else 0)
