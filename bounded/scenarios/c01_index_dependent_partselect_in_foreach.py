#!/usr/bin/env python
"""C01 defect 2: a bit-select / part-select whose bit position is the index of
an enclosing foreach (self.word[i]) is not expanded per iteration. Every copy
of the body selects the bit named by the LAST value of the index.

Clause: "... satisfy every enabled hard constraint ... (... part-select ...)"
(the constraint stands in a foreach over a fixed-size list).
"""
import sys
import vsc


@vsc.randobj
class Unpack(object):
    def __init__(self):
        self.word = vsc.rand_uint8_t()
        self.bits = vsc.rand_list_t(vsc.bit_t(1), 8)

    @vsc.constraint
    def c(self):
        self.word.inside(vsc.rangelist(0xA5, 0x5A, 0x3C, 0x69))
        # bits[i] is bit i of word
        with vsc.foreach(self.bits, idx=True) as i:
            self.bits[i] == self.word[i]


def main():
    bad = []
    n = 12
    for seed in range(n):
        u = Unpack()
        u.set_randstate(vsc.RandState.mkFromSeed(seed))
        u.randomize()
        w = u.word
        bits = [int(b) for b in u.bits]
        exp_bits = [(w >> i) & 1 for i in range(8)]
        if bits != exp_bits:
            bad.append((seed, w, bits, exp_bits))

    print("constraints : word in {0xA5, 0x5A, 0x3C, 0x69} ; foreach i: bits[i] == word[i]")
    print("expected    : bits[i] is bit i of the returned word")
    if bad:
        print("got         : %d of %d calls violate this, e.g." % (len(bad), n))
        for seed, w, bits, eb in bad[:4]:
            print("              seed=%d word=0x%02x bits=%s (expected %s)" % (seed, w, bits, eb))
        print("DEFECT PRESENT")
        return 1
    print("got         : all %d calls consistent" % n)
    return 0


if __name__ == "__main__":
    sys.exit(main())
