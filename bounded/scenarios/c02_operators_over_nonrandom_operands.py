"""C02: "A satisfiable system never fails and never raises any other exception from inside the library": constraints and
foreach conditions over non-random operands that use * / % | ^ << >> (the operators the value class of non-random fields
needs for bound inference and constant folding)."""
import sys
import vsc


@vsc.randobj
class P(object):
    def __init__(self):
        self.n = vsc.uint8_t(6)
        self.m = vsc.uint8_t(3)
        self.a = vsc.rand_uint8_t()
        self.l = vsc.rand_list_t(vsc.uint8_t(), sz=3)

    @vsc.constraint
    def c(self):
        self.a <= self.n * self.m
        self.a >= (self.n // self.m) + (self.n % self.m)
        self.a != (self.n | self.m)
        self.a != (self.n ^ self.m)
        self.a >= (self.m << 1)
        self.a <= ((self.n * self.m) >> 0)
        with vsc.foreach(self.l, idx=True) as i:
            with vsc.if_then((self.n * self.m) % 4 == 2):
                self.l[i] == 1
            with vsc.else_then:
                self.l[i] == 2


p = P()
ok = True
try:
    for _ in range(5):
        p.randomize()
        a = int(p.a)
        good = 6 <= a <= 18 and a not in (7, 5) and [int(x) for x in p.l] == [1, 1, 1]
        print("a =", a, "l =", [int(x) for x in p.l], "ok" if good else "VIOLATION")
        ok = ok and good
except vsc.SolveFailure:
    print("SolveFailure on a satisfiable system")
    ok = False
except Exception as e:
    print("raised", type(e).__name__, e)
    ok = False
sys.exit(0 if ok else 1)
