"""C13 defect 2: two covergroup *types* that share a Python class name (parameterised
covergroup) are held in memory as 'cgP' and 'cgP_2', but the report model, the text
report and the XML all call both of them 'cgP'; the name-keyed map of the report
model therefore loses one type."""
import sys, io, contextlib
import vsc
from ucis.xml.xml_factory import XmlFactory
from ucis.report.coverage_report_builder import CoverageReportBuilder


@vsc.covergroup
class cgP(object):
    def __init__(self, hi):
        self.with_sample(dict(a=vsc.uint8_t()))
        self.cp = vsc.coverpoint(self.a, bins=dict(v=vsc.bin_array([], [0, hi])))


c1 = cgP(1)      # type with 2 bins
c2 = cgP(3)      # different content -> a second covergroup type
c1.sample(0)
c2.sample(3)

mem_type_names = [c1.get_model().type_cg.name, c2.get_model().type_cg.name]

with contextlib.redirect_stdout(io.StringIO()):
    rpt = vsc.get_coverage_report_model()
    txt = vsc.get_coverage_report()
    vsc.write_coverage_db("defect_2.xml")
xml_rpt = CoverageReportBuilder.build(XmlFactory.read("defect_2.xml"))

rpt_names = [cg.name for cg in rpt.covergroups]
xml_names = [cg.name for cg in xml_rpt.covergroups]
txt_names = [l.split()[1] for l in txt.splitlines() if l.startswith("TYPE")]

print("type names held in memory        :", mem_type_names)
print("type names in report model       :", rpt_names, " covergroup_m keys:", list(rpt.covergroup_m.keys()))
print("type names in text report        :", txt_names)
print("type names after XML read back   :", xml_names)
print("expected: every view names the two types %s and the name map has 2 entries" % mem_type_names)

bad = False
if rpt_names != mem_type_names or txt_names != mem_type_names or xml_names != mem_type_names:
    bad = True
if len(rpt.covergroup_m) != 2:
    bad = True

if bad:
    print("DEFECT PRESENT")
    sys.exit(1)
print("ok")
sys.exit(0)
