#!/usr/bin/env python
# C12 defect 2: a coverpoint (or cross) that ends up with zero bins makes every
# coverage query raise ZeroDivisionError instead of reporting a value in 0..100.
import sys, io, contextlib, traceback
import vsc


def quiet(f, *a):
    with contextlib.redirect_stdout(io.StringIO()):
        return f(*a)


@vsc.covergroup
class cfg_cg(object):
    # parameterised covergroup: 'skip' lists values that are not of interest for this instance
    def __init__(self, skip):
        self.with_sample(dict(mode=vsc.bit_t(2), sz=vsc.bit_t(2)))
        self.cp_mode = vsc.coverpoint(self.mode,
                                      bins={"m": vsc.bin_array([], [0, 1])},
                                      ignore_bins={"ign": vsc.bin(*skip)})
        self.cp_sz = vsc.coverpoint(self.sz, bins={"s": vsc.bin_array([], [0, 3])})
        self.cr = vsc.cross([self.cp_mode, self.cp_sz])


cg = cfg_cg(skip=(0, 1))        # ignore_bins happen to remove every bin of cp_mode
for sz in range(4):
    cg.sample(0, sz)            # cp_sz is completely covered

results = {}
for name, fn in (("get_coverage", cg.get_coverage),
                 ("get_inst_coverage", cg.get_inst_coverage),
                 ("cp_sz.get_coverage", cg.cp_sz.get_coverage),
                 ("cp_mode.get_coverage", cg.cp_mode.get_coverage),
                 ("cr.get_coverage", cg.cr.get_coverage)):
    try:
        results[name] = quiet(fn)
    except Exception as e:
        results[name] = e

print("expected: every coverage query returns a number within 0..100")
bad = False
for k, v in results.items():
    print("got     : %-22s -> %r" % (k, v))
    if isinstance(v, Exception) or not (0 <= v <= 100):
        bad = True

if bad:
    print("DEFECT: coverage of a covergroup containing an empty coverpoint/cross is not a value in 0..100")
    sys.exit(1)
print("OK")
sys.exit(0)
