import sys, vsc
@vsc.randobj
class C:
    def __init__(self):
        self.a = vsc.rand_uint8_t()
        self.b = vsc.rand_bit_t(40)
        self.s = vsc.rand_int8_t()
        self.w = vsc.rand_uint32_t()
    @vsc.constraint
    def c(self):
        self.a < 0x100000000
        self.b == 0x1200000034
        self.s < 0x80000000
        self.s > -0x100000000
        self.w >= 0xFFFFFFF0
bad = 0
seen = set()
for k in range(40):
    o = C()
    try:
        o.randomize()
    except Exception as e:
        print("call %d: %s %s" % (k, type(e).__name__, str(e)[:120])); bad += 1; continue
    seen.add(int(o.s) < 0)
    if not (o.b == 0x1200000034 and o.w >= 0xFFFFFFF0 and -128 <= o.s <= 127):
        print("values", o.a, hex(o.b), o.s, hex(o.w)); bad += 1
if bad == 0 and seen != {True, False}:
    print("s never takes both signs", seen); bad += 1
print("problems:", bad)
sys.exit(1 if bad else 0)
