#!/usr/bin/env python
# C06 defect 1: a dynamic constraint that contains a foreach is not enforced
# when it is referenced from inside the body of another foreach
# (through a list element, items[i].dyn(), or directly, self.dyn()).
import sys
import vsc


@vsc.randobj
class Elem(object):
    def __init__(self):
        self.l = vsc.rand_list_t(vsc.uint8_t(), 3)

    @vsc.dynamic_constraint
    def all_nine(self):
        with vsc.foreach(self.l) as it:
            it == 9


@vsc.randobj
class Top(object):
    def __init__(self):
        self.items = vsc.rand_list_t(Elem(), 0)
        for _ in range(3):
            self.items.append(Elem())


@vsc.randobj
class Direct(object):
    def __init__(self):
        self.sel = vsc.rand_list_t(vsc.bit_t(1), 2)
        self.l = vsc.rand_list_t(vsc.uint8_t(), 3)

    @vsc.dynamic_constraint
    def all_nine(self):
        with vsc.foreach(self.l) as it:
            it == 9

    @vsc.constraint
    def c(self):
        with vsc.foreach(self.sel, idx=True) as i:
            self.all_nine()


def main():
    bad = 0

    # Reference check: the same dynamic constraint referenced through a
    # constant subscript is enforced on every element of l
    t = Top()
    t.set_randstate(vsc.RandState.mkFromSeed(1))
    with t.randomize_with() as it:
        it.items[1].all_nine()
    print("items[1].all_nine()           : items[1].l = %s (expected [9, 9, 9])" % list(t.items[1].l))
    if list(t.items[1].l) != [9, 9, 9]:
        print("  (unexpected: reference case fails too)")
        bad += 1

    # (a) referenced through the list element, for each element
    for n in range(5):
        try:
            with t.randomize_with() as it:
                with vsc.foreach(it.items, idx=True) as i:
                    it.items[i].all_nine()
        except Exception as e:
            print("foreach i: items[i].all_nine(): raised %s: %s" % (type(e).__name__, e))
            bad += 1
            break
        got = [list(e.l) for e in t.items]
        if got != [[9, 9, 9]] * 3:
            print("foreach i: items[i].all_nine(): expected every items[i].l == [9, 9, 9], got %s" % got)
            bad += 1
            break

    # (b) referenced directly from a foreach in a class constraint
    d = Direct()
    d.set_randstate(vsc.RandState.mkFromSeed(1))
    for n in range(5):
        try:
            d.randomize()
        except Exception as e:
            print("foreach: self.all_nine()       : raised %s: %s" % (type(e).__name__, e))
            bad += 1
            break
        if list(d.l) != [9, 9, 9]:
            print("foreach: self.all_nine()       : expected l == [9, 9, 9], got %s" % list(d.l))
            bad += 1
            break

    if bad:
        print("DEFECT PRESENT: the referenced dynamic constraint does not constrain the "
              "fields of the element / object it was referenced through")
        return 1
    print("OK: the dynamic constraint is enforced in all cases")
    return 0


if __name__ == "__main__":
    sys.exit(main())
