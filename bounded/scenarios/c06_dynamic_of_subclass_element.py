#!/usr/bin/env python
"""C06 defect 7: for an object list whose elements are subclasses of the list's
element type, it.l[k].dyn() resolves 'dyn' to a POSITION in the template type's
table of dynamic constraints and applies whatever dynamic constraint sits at
that position in the actual element - i.e. a different dynamic constraint.

Clause: "[a dynamic constraint] always constrains the fields of the object
(or list element) through which it was referenced" (here another dynamic
constraint than the one referenced is applied to the element).
"""
import random, sys, traceback
import vsc

random.seed(1)

@vsc.randobj
class B:
    def __init__(self):
        self.x = vsc.rand_uint8_t()

    @vsc.dynamic_constraint
    def a_small(self):
        self.x < 5

    @vsc.dynamic_constraint
    def z_big(self):
        self.x > 250

@vsc.randobj
class D(B):
    def __init__(self):
        super().__init__()

    @vsc.dynamic_constraint
    def m_mid(self):            # sorts between a_small and z_big
        self.x == 100

@vsc.randobj
class P:
    def __init__(self):
        self.l = vsc.rand_list_t(B(), 0)
        self.l.append(B())
        self.l.append(D())      # legal: D is a subclass of B

bad = []

def check(name, expected, fn):
    try:
        got, ok = fn()
    except Exception as e:
        traceback.print_exc(limit=-2)
        got, ok = "exception %s: %s" % (type(e).__name__, e), False
    print("[%s]\n   expected: %s\n   got     : %s  -> %s" % (
        name, expected, got, "ok" if ok else "VIOLATION"))
    if not ok:
        bad.append(name)

def ctl():
    p = P(); res = []
    for _ in range(6):
        with p.randomize_with() as it:
            it.l[0].z_big()
        res.append(int(p.l[0].x))
    return res, all(v > 250 for v in res)
check("control: it.l[0].z_big()  (element of the template type B)", "l[0].x > 250", ctl)

def direct():
    p = P(); res = []
    for _ in range(6):
        with p.l[1].randomize_with() as it:
            it.z_big()
        res.append(int(p.l[1].x))
    return res, all(v > 250 for v in res)
check("control: the D element randomized on its own with it.z_big()", "x > 250", direct)

def poly():
    p = P(); res = []
    for _ in range(6):
        with p.randomize_with() as it:
            it.l[1].z_big()
        res.append(int(p.l[1].x))
    return res, all(v > 250 for v in res)
check("it.l[1].z_big()  (element of subclass D)", "l[1].x > 250 in every call", poly)

if bad:
    print("DEFECT PRESENT:", bad)
    sys.exit(1)
print("no defect")
sys.exit(0)
