#!/usr/bin/env python
"""C05 defect 5: the priority of a soft constraint is accumulated every time
the constraint object is visited. A soft constraint in a dynamic constraint
that is referenced from two places in one randomization is visited twice per
pass, ends up with a priority above that of *later* / *inline* soft
constraints and wins the conflict.

Property clause: "When soft constraints conflict, the one stated later in the
same block - and an inline soft constraint over a class-level one - is kept".
"""
import sys
import vsc


@vsc.randobj
class Item(object):
    def __init__(self):
        self.m = vsc.rand_uint8_t()
        self.a = vsc.rand_uint8_t()

    @vsc.dynamic_constraint
    def dflt(self):
        vsc.soft(self.a == 7)

    @vsc.constraint
    def z_c(self):
        with vsc.if_then(self.m == 0):
            self.dflt()
        with vsc.if_then(self.m == 5):
            self.dflt()


@vsc.randobj
class Item2(object):
    """Unguarded variant: both references in the same block, followed by a later soft"""
    def __init__(self):
        self.a = vsc.rand_uint8_t()

    @vsc.dynamic_constraint
    def dflt(self):
        vsc.soft(self.a == 7)

    @vsc.constraint
    def z_c(self):
        self.dflt()
        self.dflt()
        vsc.soft(self.a == 3)      # later in the same block -> must win


def main():
    rc = 0
    it = Item()
    for m in (0, 5, 0, 5):
        with it.randomize_with() as i:
            i.m == m
            vsc.soft(i.a == 3)    # inline soft: must win over class-level soft (a == 7)
        ok = (it.a == 3)
        print("guarded : m=%d expected a=3 (inline soft wins) ; got a=%d%s" % (
            m, it.a, "" if ok else "   <-- class-level soft kept instead"))
        if not ok:
            rc = 1

    it2 = Item2()
    for _ in range(3):
        it2.randomize()
        ok = (it2.a == 3)
        print("same blk: expected a=3 (later soft wins) ; got a=%d%s" % (
            it2.a, "" if ok else "   <-- earlier soft kept instead"))
        if not ok:
            rc = 1
    print("DEFECT PRESENT" if rc else "ok")
    return rc


if __name__ == "__main__":
    sys.exit(main())
