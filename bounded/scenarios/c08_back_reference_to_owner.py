#!/usr/bin/env python
"""C08 defect 2: an object that is random in the call (the very object that
randomize() is called on) loses its own constraint blocks when it is reached
a second time through a plain reference held by one of its sub-objects.

Clause: "A sub-object's own constraint blocks are enforced exactly when that
sub-object is random in the call" (the object is both the root of the call
and the sub-object 'cl[0].ptr'; its fields are solved as random variables,
its blocks are dropped and its post_randomize hook is skipped).

This is the 'constraint objects' idiom of ve/unit/test_list_object.py
(test_heterogenous_content): elements of a rand list keep a reference to
their owner and constrain it.  With 'self.ptr = vsc.rand_attr(ptr)' all is
well; with the plain 'self.ptr = ptr' the owner's own blocks are ignored.
"""
import random
import sys
import vsc

random.seed(1)
N_CALLS = 20


@vsc.randobj
class CBase(object):
    pass


@vsc.randobj
class Owner(object):
    def __init__(self):
        self.a = vsc.rand_uint8_t()
        self.b = vsc.rand_uint8_t()
        self.cl = vsc.rand_list_t(CBase(), 0)
        self.post_calls = 0

    @vsc.constraint
    def own_c(self):
        self.b == self.a

    def post_randomize(self):
        self.post_calls += 1


@vsc.randobj
class UserC(CBase):
    def __init__(self, ptr):
        self.ptr = ptr           # plain reference back to the owner

    @vsc.constraint
    def ptr_c(self):
        self.ptr.a < 100


def run(with_backref):
    o = Owner()
    o.set_randstate(vsc.RandState.mkFromSeed(1))
    if with_backref:
        o.cl.append(UserC(o))
    own_viol = 0
    elem_viol = 0
    for _ in range(N_CALLS):
        o.randomize()
        if o.b != o.a:
            own_viol += 1
        if with_backref and not (o.a < 100):
            elem_viol += 1
    return own_viol, elem_viol, o.post_calls


def main():
    base = run(False)
    cyc = run(True)
    print("expected: o.randomize() enforces o's own block 'b == a' on every call")
    print("          and runs o.post_randomize() once per call (%d), with or" % N_CALLS)
    print("          without a list element that refers back to o")
    print("got     : without back reference: own_c violated %d/%d, post_randomize calls %d"
          % (base[0], N_CALLS, base[2]))
    print("          with    back reference: own_c violated %d/%d, post_randomize calls %d"
          " (element's block on o.a violated %d/%d)"
          % (cyc[0], N_CALLS, cyc[2], cyc[1], N_CALLS))

    # Same root cause, second shape (informational): the order of the roots
    # of vsc.randomize() decides whether an object is randomized at all
    @vsc.randobj
    class A(object):
        def __init__(self):
            self.x = vsc.rand_uint8_t()

        @vsc.constraint
        def c(self):
            self.x > 0

    @vsc.randobj
    class B(object):
        def __init__(self, a):
            self.ref = a
            self.z = vsc.rand_uint8_t()

    a = A()
    b = B(a)
    a.x = 0
    vsc.randomize(a, b)
    print("info    : vsc.randomize(a, b) with b.ref = a: a.x = %d (block 'x > 0' %s)"
          % (a.x, "holds" if a.x > 0 else "NOT enforced, a was not randomized"))

    if base[0] != 0 or base[2] != N_CALLS:
        print("DEFECT PRESENT (even the control fails)")
        return 1
    if cyc[0] != 0 or cyc[1] != 0 or cyc[2] != N_CALLS:
        print("DEFECT PRESENT")
        return 1
    print("ok")
    return 0


if __name__ == "__main__":
    try:
        rc = main()
    except Exception as e:
        import traceback
        traceback.print_exc()
        print("DEFECT PRESENT (unexpected exception: %s)" % e)
        rc = 1
    sys.exit(rc)
