#!/usr/bin/env python
# C03 / defect 2: growing a non-random list between calls makes the next call
# crash (BoolectorException: operands must have the same bit width) because
# ExprBinModel caches the width it computed on the first call, while the
# width of <list>.sum grows with the list.
import sys, io, contextlib, traceback
import vsc

@vsc.randobj
class Item(object):
    def __init__(self, init):
        self.a = vsc.rand_uint8_t()
        self.k = vsc.uint8_t(1)
        self.nl = vsc.list_t(vsc.uint8_t(), init=init)
    @vsc.constraint
    def c(self):
        self.a < self.nl.sum + self.k

def run(o, n):
    for i in range(n):
        with contextlib.redirect_stdout(io.StringIO()):
            o.randomize()
        lim = sum(list(o.nl)) + o.k
        assert o.a < lim, (o.a, lim)

# control: an object that starts with the 4-element list works
ctl = Item([60, 60, 60, 60])
run(ctl, 10)
print("control (list has 4 elements from the start): ok, a < 241 holds")

o = Item([60])
run(o, 10)
print("first calls with nl=[60]: ok, a < 61 holds")
o.nl.extend([60, 60, 60])     # content changed between calls
print("expected: after nl.extend([60,60,60]) the call succeeds with a < 241")
try:
    run(o, 10)
    print("got     : success")
    print("no defect")
    sys.exit(0)
except AssertionError as e:
    print("got     : wrong solution", e)
    sys.exit(1)
except Exception as e:
    print("got     : %s: %s" % (type(e).__name__, e))
    print("DEFECT PRESENT")
    sys.exit(1)
