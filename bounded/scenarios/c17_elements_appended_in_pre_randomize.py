"""C17 defect 1: list elements that the parent's pre_randomize adds to a random
list are randomized by the call, but neither their pre_randomize nor their
post_randomize hook is invoked.

Clause: "invokes pre_randomize exactly once, before solving, on the top object
and on every random sub-object including list elements, so values it assigns to
non-random fields are the ones the solver sees; it invokes post_randomize
exactly once on the same objects"
"""
import sys
import vsc

calls = []

@vsc.randobj
class Item:
    def __init__(self, name):
        self.name = name
        self.x = vsc.rand_uint8_t()
        self.lo = vsc.uint8_t(0)      # non-random, assigned by pre_randomize

    @vsc.constraint
    def x_c(self):
        self.x >= self.lo

    def pre_randomize(self):
        calls.append(("pre", self.name))
        self.lo = 200                 # the solver must see this value

    def post_randomize(self):
        calls.append(("post", self.name))

@vsc.randobj
class Top:
    def __init__(self):
        self.items = vsc.rand_list_t(Item(""), 0)
        self.n = 0

    def pre_randomize(self):
        calls.append(("pre", "top"))
        # classic idiom: (re)build the list of random items before solving
        self.items.clear()
        for i in range(2):
            self.items.append(Item("it%d_%d" % (self.n, i)))
        self.n += 1

    def post_randomize(self):
        calls.append(("post", "top"))

t = Top()
t.set_randstate(vsc.RandState.mkFromSeed(1))
bad = False
for k in range(3):
    calls.clear()
    t.randomize()
    names = ["it%d_%d" % (k, i) for i in range(2)]
    expected = [("pre", "top")] + [("pre", n) for n in names] + \
               [("post", "top")] + [("post", n) for n in names]
    xs = [int(e.x) for e in t.items]
    print("call %d" % k)
    print("  expected hook calls :", expected)
    print("  observed hook calls :", list(calls))
    print("  expected every x >= 200 (lo assigned by the element's pre_randomize); got x =", xs)
    if sorted(calls) != sorted(expected):
        bad = True
    if any(x < 200 for x in xs):
        bad = True

if bad:
    print("DEFECT PRESENT: hooks of list elements added in the parent's pre_randomize are skipped")
    sys.exit(1)
print("OK")
sys.exit(0)
