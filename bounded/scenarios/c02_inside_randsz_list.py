#!/usr/bin/env python
"""C02 defect 3: `x.inside(lst)` / `x.not_inside(lst)` is ignored when `lst` is a
random-size list (randsz_list_t).

Clauses violated:
  (a) "an unsatisfiable one never returns normally with values"
  (b) "A satisfiable system never fails"

ExprInModel.build() skips a rand-size list operand (`if arr.is_rand_sz: pass`),
so the membership test contributes no term: `inside` degenerates to constant
true and `not_inside` to constant false.
"""
import sys, io, contextlib
import vsc


@vsc.randobj
class Inside:
    """l has 2 elements, all < 5; a must be one of them AND a > 10  -> unsat"""
    def __init__(self):
        self.a = vsc.rand_uint8_t()
        self.l = vsc.randsz_list_t(vsc.uint8_t())

    @vsc.constraint
    def c(self):
        self.l.size == 2
        with vsc.foreach(self.l, idx=True) as i:
            self.l[i] < 5
        self.a.inside(self.l)
        self.a > 10


@vsc.randobj
class NotInside:
    """l has 2 elements; a must differ from both  -> plenty of solutions"""
    def __init__(self):
        self.a = vsc.rand_uint8_t()
        self.l = vsc.randsz_list_t(vsc.uint8_t())

    @vsc.constraint
    def c(self):
        self.l.size == 2
        self.a.not_inside(self.l)


def run(cls):
    o = cls()
    buf = io.StringIO()
    try:
        with contextlib.redirect_stdout(buf):
            o.randomize()
    except vsc.SolveFailure:
        return None
    return (o.a, list(o.l))


def main():
    bad = False
    r = run(Inside)
    print("case (a): size==2; l[i]<5; a.inside(l); a>10")
    print("expected: SolveFailure")
    print("got     : %s" % ("SolveFailure" if r is None else "returned normally a=%d l=%s" % r))
    if r is not None:
        bad = True

    r = run(NotInside)
    print("case (b): size==2; a.not_inside(l)")
    print("expected: a solution with a not in l")
    print("got     : %s" % ("SolveFailure" if r is None else "a=%d l=%s" % r))
    if r is None or r[0] in r[1]:
        bad = True

    if bad:
        print("DEFECT PRESENT: membership in a random-size list is not enforced")
        return 1
    print("no defect")
    return 0


if __name__ == "__main__":
    sys.exit(main())
