#!/usr/bin/env python
"""C06 defect 4: a soft constraint inside a dynamic constraint is silently
dropped when the dynamic constraint is referenced through a list element
(it.l[k].dyn()), whereas it is honoured when referenced through the object
itself or through a plain sub-object.

Clause: "[a dynamic constraint] always constrains the fields of the object
(or list element) through which it was referenced".
"""
import random, sys, traceback
import vsc

random.seed(1)

@vsc.randobj
class E:
    def __init__(self):
        self.x = vsc.rand_uint8_t()

    @vsc.dynamic_constraint
    def prefer7(self):
        vsc.soft(self.x == 7)

@vsc.randobj
class P:
    def __init__(self):
        self.sub = vsc.rand_attr(E())
        self.l = vsc.rand_list_t(E(), 0)
        for _ in range(3):
            self.l.append(E())

bad = []

def check(name, expected, fn):
    try:
        got, ok = fn()
    except Exception as e:
        traceback.print_exc(limit=-2)
        got, ok = "exception %s: %s" % (type(e).__name__, e), False
    print("[%s]\n   expected: %s\n   got     : %s  -> %s" % (
        name, expected, got, "ok" if ok else "VIOLATION"))
    if not ok:
        bad.append(name)

def ctl():
    p = P(); res = []
    for _ in range(10):
        with p.randomize_with() as it:
            it.sub.prefer7()
        res.append(int(p.sub.x))
    return res, all(v == 7 for v in res)
check("control: it.sub.prefer7() (nothing contradicts the soft constraint)",
      "sub.x == 7 in every call", ctl)

def elem():
    p = P(); res = []
    for _ in range(10):
        with p.randomize_with() as it:
            it.l[1].prefer7()
        res.append(int(p.l[1].x))
    return res, all(v == 7 for v in res)
check("it.l[1].prefer7() (nothing contradicts the soft constraint)",
      "l[1].x == 7 in every call", elem)

if bad:
    print("DEFECT PRESENT:", bad)
    sys.exit(1)
print("no defect")
sys.exit(0)
