#!/usr/bin/env python
"""C01 defect 5: a range of a rangelist whose two bounds are both compound
expressions gets its bounds SWAPPED.

Clause violated: "the values ... satisfy every enabled hard constraint ...
under the documented SystemVerilog-style meaning of the operators (...
in/rangelist ...)".

doc/source/constraints.rst documents variable-bounded ranges
(`self.b in vsc.rangelist(vsc.rng(self.c,self.d))`). With plain fields as
bounds this works. When both bounds are expressions, e.g.

    self.a in vsc.rangelist((self.lo + 1, self.hi - 1))        # or vsc.rng(...)

the constraint that reaches the solver is  (a >= hi-1) && (a <= lo+1), i.e.
the range [hi-1 : lo+1]. randomize() returns normally with values that are
outside [lo+1 : hi-1].
"""
import random
import sys
import vsc


def make(use_rng):
    @vsc.randobj
    class Item(object):
        def __init__(self):
            self.a = vsc.rand_uint8_t()
            self.lo = vsc.rand_uint8_t()
            self.hi = vsc.rand_uint8_t()

        @vsc.constraint
        def c(self):
            if use_rng:
                self.a in vsc.rangelist(vsc.rng(self.lo + 1, self.hi - 1))
            else:
                self.a in vsc.rangelist((self.lo + 1, self.hi - 1))
    return Item


@vsc.randobj
class Ctrl(object):
    """Control: plain fields as bounds"""
    def __init__(self):
        self.a = vsc.rand_uint8_t()
        self.lo = vsc.rand_uint8_t()
        self.hi = vsc.rand_uint8_t()

    @vsc.constraint
    def c(self):
        self.a in vsc.rangelist((self.lo, self.hi))


def trial(cls, pred, n=30):
    it = cls()
    it.set_randstate(vsc.RandState.mkFromSeed(1))
    bad = []
    for k in range(n):
        it.randomize()
        a, lo, hi = int(it.a), int(it.lo), int(it.hi)
        if not pred(a, lo, hi):
            bad.append((a, lo, hi))
    return bad


def main():
    random.seed(1)
    n = 30
    # literals are 32 bits wide, so lo+1 / hi-1 are evaluated in 32 bits
    # (no 8-bit wrap-around); hi-1 with hi==0 is 0xFFFFFFFF
    def pred(a, lo, hi):
        return (lo + 1) <= a <= ((hi - 1) & 0xFFFFFFFF)

    cbad = trial(Ctrl, lambda a, lo, hi: lo <= a <= hi, n)
    bad_t = trial(make(False), pred, n)
    bad_r = trial(make(True), pred, n)

    print("constraint : a in rangelist((lo + 1, hi - 1))      [also with vsc.rng(lo + 1, hi - 1)]")
    print("expected   : lo+1 <= a <= hi-1 after every randomize()")
    print("control    : rangelist((lo, hi)) with plain fields -> %d of %d calls violate lo <= a <= hi" % (len(cbad), n))
    print("got (tuple): %d of %d calls returned normally with a outside [lo+1 : hi-1]" % (len(bad_t), n))
    for a, lo, hi in bad_t[:4]:
        print("             a=%d lo=%d hi=%d   (note hi-1 <= a <= lo+1 : bounds swapped)" % (a, lo, hi))
    print("got (rng)  : %d of %d calls returned normally with a outside [lo+1 : hi-1]" % (len(bad_r), n))
    for a, lo, hi in bad_r[:4]:
        print("             a=%d lo=%d hi=%d" % (a, lo, hi))
    if bad_t or bad_r:
        print("DEFECT PRESENT")
        return 1
    print("ok")
    return 0


if __name__ == "__main__":
    sys.exit(main())
