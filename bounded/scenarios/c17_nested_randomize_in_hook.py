"""C17 defect 3: a NON-random sub-object that the parent randomizes explicitly
from its own hook (the usual way to drive a non-rand child) additionally gets
hook calls from the parent's randomize() call, and so does the random
sub-object below it.

Clause: "Neither runs for a non-random sub-object or anything below it."
(and "exactly once" for the child's own randomize() call)
"""
import sys
import vsc

calls = []

@vsc.randobj
class Leaf:
    def __init__(self, name):
        self.name = name
        self.v = vsc.rand_uint8_t()
    def pre_randomize(self):
        calls.append(("pre", self.name))
    def post_randomize(self):
        calls.append(("post", self.name))

@vsc.randobj
class Child:
    def __init__(self, name):
        self.name = name
        self.v = vsc.rand_uint8_t()
        self.leaf = vsc.rand_attr(Leaf(name + ".leaf"))
    def pre_randomize(self):
        calls.append(("pre", self.name))
    def post_randomize(self):
        calls.append(("post", self.name))

@vsc.randobj
class Parent:
    def __init__(self, where):
        self.where = where
        self.z = vsc.rand_uint8_t()
        self.child = vsc.attr(Child("child"))     # NOT random
    def pre_randomize(self):
        calls.append(("pre", "parent"))
        if self.where == "pre":
            self.child.randomize()                # separate, explicit call
            calls.append("-- child.randomize() returned --")
    def post_randomize(self):
        calls.append(("post", "parent"))
        if self.where == "post":
            self.child.randomize()                # separate, explicit call
            calls.append("-- child.randomize() returned --")

bad = False
for where in ("post", "pre"):
    p = Parent(where)
    calls.clear()
    p.randomize()
    print("child.randomize() issued from parent's %s_randomize:" % where)
    for c in calls:
        print("   ", c)
    for obj in ("child", "child.leaf"):
        for hook in ("pre", "post"):
            n = calls.count((hook, obj))
            print("  %s_randomize on %-10s: expected 1 call (from child.randomize() only), got %d"
                  % (hook, obj, n))
            if n != 1:
                bad = True
    # everything logged after the nested call returned belongs to
    # parent.randomize() alone and must not touch the non-random child
    tail = calls[calls.index("-- child.randomize() returned --") + 1:]
    extra = [c for c in tail if c[1] != "parent"]
    print("  hook calls made by parent.randomize() on the non-random subtree: expected [], got", extra)
    if extra:
        bad = True

if bad:
    print("DEFECT PRESENT: hooks ran for a non-random sub-object (and the object below it)")
    sys.exit(1)
print("OK")
sys.exit(0)
