"""C09 defect 2: constructing an unrelated randobj inside the body of a
randomize_with() block silently discards the inline constraints written so far,
so the values of the object being randomized change.

Property clause: "the sequence of values an object produces is identical across
... unrelated activity (other objects' randomizations, ...)" and "results depend
only on seed, model and call history".
"""
import sys
import vsc


@vsc.randobj
class Helper:
    def __init__(self):
        self.v = vsc.rand_uint8_t()
        self.w = vsc.rand_uint8_t()

    @vsc.constraint
    def c(self):
        self.v < self.w


@vsc.randobj
class Item:
    def __init__(self):
        self.a = vsc.rand_uint8_t()
        self.b = vsc.rand_uint8_t()


def run(where):
    o = Item()
    o.set_randstate(vsc.RandState.mkFromSeed(4))
    seq = []
    for _ in range(6):
        if where == "before":
            Helper()                   # unrelated object, built just before the block
        with o.randomize_with() as it:
            it.b < 100
            if where == "inside":
                Helper()               # same unrelated object, built inside the block
            it.a > 200
        seq.append((o.a, o.b))
    return seq


ref = run("before")
got = run("inside")
print("expected: same (a, b) sequence wherever the unrelated Helper() is built, every b < 100")
print("Helper() before block:", ref)
print("Helper() inside block:", got)
if ref != got or any(b >= 100 for _, b in got):
    print("DEFECT: building an unrelated object dropped the pending inline constraint 'b < 100'")
    sys.exit(1)
print("ok")
sys.exit(0)
