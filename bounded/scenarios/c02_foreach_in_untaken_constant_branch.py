"""C02: "A satisfiable system never fails and never raises any other exception from inside the library": an if/else whose
condition is constant in the call and whose branch that is NOT taken contains a foreach."""
import vsc, sys
@vsc.randobj
class A(object):
    def __init__(self):
        self.a = vsc.bit_t(1)
        self.l = vsc.rand_list_t(vsc.uint8_t(), sz=2)
        self.m = vsc.rand_list_t(vsc.uint8_t(), sz=2)
    @vsc.constraint
    def c(self):
        with vsc.foreach(self.l, idx=True) as i:
            with vsc.if_then(self.a == 1):
                with vsc.foreach(self.m, idx=True) as j:
                    self.m[j] < 10
o = A(); o.a = 0
bad = 0; seen=set()
for _ in range(40):
    o.randomize(); seen.update(int(x) for x in o.m)
print("a==0: max m seen", max(seen))
ok1 = max(seen) >= 10           # the inner constraint must not apply when the guard is false
# (1) constant if/else with a foreach in the branch that is not taken
@vsc.randobj
class B(object):
    def __init__(self):
        self.a = vsc.bit_t(1)
        self.l = vsc.rand_list_t(vsc.uint8_t(), sz=2)
        self.x = vsc.rand_uint8_t()
    @vsc.constraint
    def c(self):
        with vsc.if_then(self.a == 1):
            with vsc.foreach(self.l) as it:
                it < 10
        with vsc.else_then:
            self.x < 5
b = B(); b.a = 0
try:
    b.randomize(); ok2 = int(b.x) < 5
    print("constant if/else with foreach in the untaken branch: x =", int(b.x))
except Exception as e:
    ok2 = False; print("constant if/else with foreach in the untaken branch raised", type(e).__name__, e)
sys.exit(0 if ok1 and ok2 else 1)
