"""C18: "enum fields hold and return declared enumerators" and "the same value is observed through ... list indexing and
iteration": iterating a list of an enum type yields enumerators, exactly as indexing does."""
import sys
from enum import IntEnum
import vsc


class E(IntEnum):
    A = 1
    B = 4
    C = 9


@vsc.randobj
class P(object):
    def __init__(self):
        self.l = vsc.rand_list_t(vsc.enum_t(E), 3)


p = P()
ok = True
for call in range(3):
    p.randomize()
    by_index = [p.l[i] for i in range(len(p.l))]
    by_iter = [v for v in p.l]
    print("call", call, "indexing", by_index, "iteration", by_iter)
    ok = ok and by_index == by_iter and all(isinstance(v, E) for v in by_iter) and all(type(v) is type(w) for v, w in zip(by_index, by_iter))
sys.exit(0 if ok else 1)
