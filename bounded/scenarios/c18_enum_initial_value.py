#!/usr/bin/env python
# C18 defect 1: the constructor initial value of an enum field is silently dropped.
#   clause: "assignments (... constructor initial values) ... the same value is observed through
#            attribute access, get_val() ..." / "enum fields hold and return declared enumerators"
import sys
from enum import Enum, IntEnum, auto
import vsc


class Color(Enum):
    RED = auto()
    GREEN = auto()
    BLUE = auto()


class Op(IntEnum):
    NOP = 3
    ADD = 7
    SUB = 11


@vsc.randobj
class Item(object):
    def __init__(self):
        self.c = vsc.enum_t(Color, i=Color.BLUE)
        self.o = vsc.rand_enum_t(Op, i=Op.SUB)
        self.n = vsc.uint8_t(i=42)   # reference: scalar initial values are honoured


fails = []


def check(what, got, exp):
    ok = (got == exp)
    print("%-45s expected %-12r got %-12r %s" % (what, exp, got, "ok" if ok else "MISMATCH"))
    if not ok:
        fails.append(what)


# stand-alone fields
check("enum_t(Color, i=Color.BLUE).get_val()", vsc.enum_t(Color, i=Color.BLUE).get_val(), Color.BLUE)
check("rand_enum_t(Op, i=Op.SUB).get_val()", vsc.rand_enum_t(Op, i=Op.SUB).get_val(), Op.SUB)

# class members, attribute access
it = Item()
check("Item().n (uint8_t(i=42), reference)", it.n, 42)
check("Item().c (enum_t(Color, i=Color.BLUE))", it.c, Color.BLUE)
check("Item().o (rand_enum_t(Op, i=Op.SUB))", it.o, Op.SUB)

if fails:
    print("DEFECT PRESENT: enum constructor initial value ignored (%d mismatches)" % len(fails))
    sys.exit(1)
print("no defect")
sys.exit(0)
