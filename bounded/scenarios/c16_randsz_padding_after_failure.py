"""
C16 defect 2: every call pre-extends a random-size list (randsz_list_t) to the
largest size its bounds admit and relies on FieldArrayModel.post_randomize to
drop the surplus elements again.  When the call ends with SolveFailure, or with
a user exception raised in post_randomize, that trimming never happens: the
temporary elements stay in the model and take part in every constraint of the
next call (foreach / unique / ... are expanded over them).

Clause violated: "the object's model carries no leftover temporary constraints
or solver handles. Every later construction or randomization therefore behaves
exactly as in a session where the failed call never happened".
"""
import sys
import vsc


class Boom(Exception):
    pass


@vsc.randobj
class Item:
    def __init__(self):
        self.x = vsc.rand_uint8_t()
        self.k = vsc.uint8_t(1)
        self.rl = vsc.randsz_list_t(vsc.uint8_t())
        self.boom = False

    @vsc.constraint
    def c(self):
        self.rl.size <= 50
        self.x != self.k

    def post_randomize(self):
        if self.boom:
            raise Boom("user error in post_randomize")


def session(mode):
    o = Item()
    o.set_randstate(vsc.RandState.mkFromSeed(1))
    with o.randomize_with() as it:          # ends normally, list has 2 elements
        it.rl.size == 2
    assert len(o.rl) == 2

    if mode == "solvefail":
        try:
            with o.randomize_with() as it:
                it.x == 1                   # contradicts x != k  -> SolveFailure
        except vsc.SolveFailure:
            pass
    elif mode in ("post_randomize", "same call, callback does not raise"):
        # The solver picks size 2 again, but bounds analysis cannot see that,
        # so the list is pre-extended to 50 elements for this call
        o.boom = (mode == "post_randomize")
        try:
            with o.randomize_with() as it:
                it.rl.size * 3 == 6
        except Boom:
            pass
        o.boom = False
        assert len(o.rl) == 2

    # Later call: at most two elements, all different, all < 4.
    # Trivially satisfiable for a 2-element list.
    try:
        with o.randomize_with() as it:
            it.rl.size <= 2
            vsc.unique(it.rl)
            with vsc.foreach(it.rl) as e:
                e < 4
    except vsc.SolveFailure:
        return "SolveFailure"
    return "ok %s" % str(list(o.rl))


bad = False
ref = session(None)
print("clean session                         : later call ->", ref)
assert ref.startswith("ok")
for mode in ("same call, callback does not raise", "solvefail", "post_randomize"):
    r = session(mode)
    print("session with extra call (%s): later call -> %s" % (mode, r))
    print("  expected: ok (same as the clean session)")
    if not r.startswith("ok"):
        print("  got     : SolveFailure - the 50 elements pre-allocated by the failed call are still in the")
        print("            model, so 'unique' + 'e < 4' is expanded over 50 elements and cannot be solved")
        bad = True
sys.exit(1 if bad else 0)
