"""
C04 defect 2: a part-select on a list element inside a foreach body is dropped.

Clause: "After a successful call every foreach body holds for every index and
element of the final list."

    with vsc.foreach(self.l, idx=True) as i:
        self.l[i][7:4] == 5            # upper nibble of every element is 5

The same constraint written outside a foreach (self.l[0][7:4] == 5) works.
"""
import sys
import io
import contextlib
import vsc


@vsc.randobj
class C(object):
    def __init__(self):
        self.l = vsc.rand_list_t(vsc.uint8_t(), sz=5)

    @vsc.constraint
    def c(self):
        with vsc.foreach(self.l, idx=True) as i:
            self.l[i][7:4] == 5


def main():
    # (the library prints a stray debug line "k=slice(...)" while the
    #  constraint is elaborated; hide it)
    with contextlib.redirect_stdout(io.StringIO()):
        c = C()
    n_calls = 10
    bad = []
    for k in range(n_calls):
        with contextlib.redirect_stdout(io.StringIO()):
            c.randomize()
        vals = [int(x) for x in c.l]
        viol = [i for i, v in enumerate(vals) if (v >> 4) != 5]
        if viol:
            bad.append((k, vals, viol))

    print("expected: after every successful randomize(), (l[i] >> 4) == 5 for every index i")
    if bad:
        k, vals, viol = bad[0]
        print("got     : %d of %d calls violate the foreach body, e.g. call %d: l=%s (indices %s)" % (
            len(bad), n_calls, k, [hex(v) for v in vals], viol))
        print("DEFECT PRESENT")
        return 1
    print("got     : all calls satisfy the foreach body")
    return 0


if __name__ == "__main__":
    sys.exit(main())
