#!/usr/bin/env python
"""C08 defect 2: vsc.unique() written inside a foreach over a list of objects is
applied to the LAST element only (n times); all other elements are left
unconstrained.

Clause: "each reference denotes the field of the specific sub-object instance
named by its attribute path or index".
"""
import sys
import vsc


@vsc.randobj
class Elem(object):
    def __init__(self):
        self.x = vsc.rand_uint8_t()
        self.y = vsc.rand_uint8_t()


@vsc.randobj
class Top(object):
    def __init__(self):
        self.l = vsc.rand_list_t(Elem(), 4)

    @vsc.constraint
    def c(self):
        with vsc.foreach(self.l) as it:
            it.x == 1
            it.y <= 1
            vsc.unique(it.x, it.y)     # => it.y must be 0 in EVERY element


def main():
    t = Top()
    viol = {}
    for n in range(20):
        t.randomize()
        for i, e in enumerate(t.l):
            if e.x == e.y:
                viol[i] = viol.get(i, 0) + 1
    print("expected: x != y in every element of every call (20 calls x 4 elements)")
    if viol:
        print("got     : x == y violations per element index: %s" % dict(sorted(viol.items())))
        print("          (only the last element, index 3, is ever made unique)")
        print("DEFECT PRESENT")
        return 1
    print("got     : no violations")
    return 0


if __name__ == "__main__":
    try:
        rc = main()
    except Exception as e:
        print("unexpected exception: %s: %s" % (type(e).__name__, e))
        rc = 1
    sys.exit(rc)
