"""C20 defect 3: feasible values of a signed 'before' variable are never produced.

Property clause: "every feasible value of a - one that can be extended to a full
solution - is produced with a probability that does not depend on how many values
of b accompany it, uniform over a's feasible values when these fill its inferred
range."

a, b are int8; -10 <= a <= 10; b >= a; solve_order(a, b).  All 21 values -10..10 of
a are feasible (b = 127 extends each of them) and fill a's inferred range, so each
must appear with probability 1/21.  In 2100 draws the values 6..10 never appear.
"""
import sys, collections
import vsc

@vsc.randobj
class C:
    def __init__(self):
        self.a = vsc.rand_int8_t()
        self.b = vsc.rand_int8_t()
    @vsc.constraint
    def c(self):
        vsc.solve_order(self.a, self.b)
        self.a >= -10
        self.a <= 10
        self.b >= self.a

o = C()
o.set_randstate(vsc.RandState.mkFromSeed(7))
N = 2100
h = collections.Counter()
for _ in range(N):
    o.randomize()
    a, b = int(o.a), int(o.b)
    assert -10 <= a <= 10 and b >= a, "constraint violated"
    h[a] += 1
missing = [v for v in range(-10, 11) if h[v] == 0]
print("draws: %d; expected: each of the 21 values -10..10 about %d times" % (N, N // 21))
print("got: %s" % sorted(h.items()))
print("values never produced: %s" % missing)
# P(a given value is absent from 2100 uniform draws) = (20/21)^2100 < 1e-44
if missing:
    print("DEFECT: feasible values of the earlier variable are unreachable")
    sys.exit(1)
print("OK")
sys.exit(0)
