"""The bounded program family: small constraint programs generated from a grammar (seeded, deterministic), rendered both as
data for the reference evaluator (bounded/ref_eval.py) and as pyvsc DSL source."""
import random

CMP = ["==", "!=", "<", "<=", ">", ">="]
ARI = ["+", "-", "&", "|", "^", "*"]


def gen_program(seed, with_soft=True, max_stmts=3, with_order=False):
    r = random.Random(seed)
    F = {}
    rand = []
    nr = r.choice([2, 2, 3])
    for i in range(nr):
        w = r.choice([1, 2, 3, 3, 4])
        s = r.random() < 0.35 and w > 1
        F["f%d" % i] = (w, s)
        rand.append("f%d" % i)
    fixed = []
    if r.random() < 0.6:
        w = r.choice([2, 3, 4])
        F["n0"] = (w, r.random() < 0.3)
        fixed.append("n0")
    names = list(F)

    def lit():
        return r.choice([0, 1, 2, 3, 4, 5, 7, 8, -1, -2, 15])

    def leaf():
        return ("f", r.choice(names)) if r.random() < 0.75 else ("lit", lit())

    def fld():
        return ("f", r.choice(names))

    def arith(d=1, need_field=False):
        if d == 0 or r.random() < 0.45:
            return fld() if need_field else leaf()
        op = r.choice(ARI + (["<<", ">>"] if r.random() < 0.2 else []))
        l = ("f", r.choice(names))
        rr = leaf() if op not in ("<<", ">>") else ("lit", r.choice([0, 1, 2]))
        return ("bin", op, l, rr)

    def boolean(d=1):
        x = r.random()
        if x < 0.55:
            return ("cmp", r.choice(CMP), arith(1, True), arith(0) if r.random() < 0.7 else arith())
        if x < 0.70:
            n = r.choice(names)
            items = []
            for _ in range(r.choice([1, 2, 3])):
                if r.random() < 0.5:
                    lo = lit()
                    items.append((lo, lo + r.choice([0, 1, 2, 3])))
                else:
                    items.append(lit())
            return ("in", ("f", n), items)
        if x < 0.80:
            n = r.choice([n_ for n_ in names if F[n_][0] >= 2] or names)
            w = F[n][0]
            hi = r.randrange(w)
            lo = r.randrange(hi + 1)
            return ("cmp", r.choice(["==", "!="]), ("psel", n, hi, lo), ("lit", r.choice([0, 1, 2, 3]) % (1 << (hi - lo + 1))))
        if d > 0:
            k = r.choice(["and", "or", "not"])
            if k == "not":
                return ("not", boolean(0))
            return (k, boolean(0), boolean(0))
        return ("cmp", r.choice(CMP), fld(), leaf())

    def stmt(d=1):
        x = r.random()
        if x < 0.50 or d == 0:
            if with_soft and r.random() < 0.25:
                return ("soft", boolean(0))
            return ("expr", boolean())
        if x < 0.72:
            els = [stmt(0)] if r.random() < 0.5 else None
            return ("if", boolean(0), [stmt(0) for _ in range(r.choice([1, 2]))], els)
        if x < 0.86:
            return ("implies", boolean(0), [stmt(0)])
        same = [n for n in rand if F[n] == F[rand[0]]]
        if len(same) >= 2:
            return ("unique", same)
        return ("expr", boolean())
    stmts = [stmt() for _ in range(r.randint(1, max_stmts))]
    if with_soft and r.random() < 0.5:
        stmts.append(("soft", boolean(0)))
        if r.random() < 0.5:
            stmts.append(("soft", boolean(0)))
    if with_order and len(rand) >= 2:
        ro = list(rand)
        r.shuffle(ro)
        for i in range(r.choice([1, 1, 2])):
            if i + 1 < len(ro):
                stmts.append(("order", [ro[i]], [ro[i + 1]]))       # acyclic: follows the shuffled order
        if len(ro) >= 3 and r.random() < 0.3:
            stmts.append(("order", [ro[0]], [ro[1], ro[2]]))
    return {"F": F, "rand": rand, "fixed": fixed, "stmts": stmts, "seed": seed}


# ---- rendering as pyvsc source ------------------------------------------------------------------------------
def rx(e):
    k = e[0]
    if k == "f":
        return "self.%s" % e[1]
    if k == "lit":
        return "(%d)" % e[1] if e[1] < 0 else str(e[1])
    if k == "bin":
        return "(%s %s %s)" % (rx(e[2]), e[1], rx(e[3]))
    if k == "cmp":
        return "(%s %s %s)" % (rx(e[2]), e[1], rx(e[3]))
    if k == "in":
        items = ", ".join(("(%d, %d)" % it) if isinstance(it, tuple) else str(it) for it in e[2])
        return "%s.inside(vsc.rangelist(%s))" % (rx(e[1]), items)
    if k == "psel":
        return "self.%s[%d:%d]" % (e[1], e[2], e[3])
    if k == "and":
        return "(%s & %s)" % (rx(e[1]), rx(e[2]))
    if k == "or":
        return "(%s | %s)" % (rx(e[1]), rx(e[2]))
    if k == "not":
        return "(~%s)" % rx(e[1])
    raise ValueError(k)


def rs(st, ind):
    p = " " * ind
    k = st[0]
    if k == "expr":
        return [p + rx(st[1])]
    if k == "soft":
        return [p + "vsc.soft(%s)" % rx(st[1])]
    if k == "unique":
        return [p + "vsc.unique(%s)" % ", ".join("self.%s" % n for n in st[1])]
    if k == "order":
        f = lambda l: ("self.%s" % l[0]) if len(l) == 1 else "[" + ", ".join("self.%s" % n for n in l) + "]"
        return [p + "vsc.solve_order(%s, %s)" % (f(st[1]), f(st[2]))]
    if k == "implies":
        out = [p + "with vsc.implies(%s):" % rx(st[1])]
        for s in st[2]:
            out += rs(s, ind + 4)
        return out
    if k == "if":
        out = [p + "with vsc.if_then(%s):" % rx(st[1])]
        for s in st[2]:
            out += rs(s, ind + 4)
        if st[3]:
            out.append(p + "with vsc.else_then:")
            for s in st[3]:
                out += rs(s, ind + 4)
        return out
    raise ValueError(k)


def render(P, cname="P", inline=None):
    L = ["@vsc.randobj", "class %s(object):" % cname, "    def __init__(self):"]
    for n, (w, s) in P["F"].items():
        t = ("rand_" if n in P["rand"] else "") + ("int_t" if s else "bit_t")
        L.append("        self.%s = vsc.%s(%d)" % (n, t, w))
    L += ["    @vsc.constraint", "    def c(self):"]
    body = []
    for st in P["stmts"]:
        body += rs(st, 8)
    L += body or ["        pass"]
    return "\n".join(L) + "\n"
