"""Independent reference evaluator (R-EXPR / R-SOFT) for the bounded program family.

Programs are plain data (tuples); nothing here imports pyvsc.  Expression forms:
  ("f", name)                      field reference
  ("lit", v)                       Python int literal (32-bit signed)
  ("bin", op, l, r)                op in + - * & | ^ << >>           (arithmetic / bitwise, context-sized)
  ("cmp", op, l, r)                op in == != < <= > >=             (1-bit)
  ("in", e, [v | (lo, hi), ...])   membership
  ("psel", name, hi, lo)           part-select of a field (unsigned)
  ("and", a, b) ("or", a, b) ("not", a)     Boolean composition of 1-bit terms
Statements:
  ("expr", e) ("if", cond, [then], [else]|None) ("implies", cond, [body]) ("unique", [names]) ("soft", e)
"""
import itertools


def width(e, F):
    k = e[0]
    if k == "f":
        return F[e[1]][0]
    if k == "lit":
        return 32
    if k == "bin":
        return max(width(e[2], F), width(e[3], F))
    if k == "psel":
        return e[2] - e[3] + 1
    return 1


def signed(e, F):
    k = e[0]
    if k == "f":
        return F[e[1]][1]
    if k == "lit":
        return True
    if k == "bin":
        return signed(e[2], F) and signed(e[3], F)
    return False


def sx(p, wf, wt, sg):
    if wt <= wf:
        return p
    if sg and (p >> (wf - 1)) & 1:
        return p | (((1 << (wt - wf)) - 1) << wf)
    return p


def to_s(p, w):
    return p - (1 << w) if (p >> (w - 1)) & 1 else p


def ev(e, F, V, cw=-1):
    """-> (pattern, width) of e in context width cw"""
    k = e[0]
    if k == "f":
        w = F[e[1]][0]
        return V[e[1]] % (1 << w), w
    if k == "lit":
        W = max(32, cw)
        return e[1] % (1 << W), W
    if k == "psel":
        w = F[e[1]][0]
        p = V[e[1]] % (1 << w)
        return (p >> e[3]) & ((1 << (e[2] - e[3] + 1)) - 1), e[2] - e[3] + 1
    if k == "bin":
        W = max(width(e[2], F), width(e[3], F), cw)
        sg = signed(e[2], F) and signed(e[3], F)
        lp, lw = ev(e[2], F, V, W)
        rp, rw = ev(e[3], F, V, W)
        l, r = sx(lp, lw, W, sg), sx(rp, rw, W, sg)
        M = (1 << W) - 1
        op = e[1]
        if op == "+":
            return (l + r) & M, W
        if op == "-":
            return (l - r) & M, W
        if op == "*":
            return (l * r) & M, W
        if op == "&":
            return l & r, W
        if op == "|":
            return l | r, W
        if op == "^":
            return l ^ r, W
        if op == "<<":
            return ((l << r) & M if r < W else 0), W
        if op == ">>":
            return ((l >> r) if r < W else 0), W
        raise ValueError(op)
    return (1 if truth(e, F, V) else 0), 1


def truth(e, F, V):
    k = e[0]
    if k == "cmp":
        W = max(width(e[2], F), width(e[3], F))
        sg = signed(e[2], F) and signed(e[3], F)
        lp, lw = ev(e[2], F, V, W)
        rp, rw = ev(e[3], F, V, W)
        l, r = sx(lp, lw, W, sg), sx(rp, rw, W, sg)
        if sg:
            l, r = to_s(l, W), to_s(r, W)
        return {"==": l == r, "!=": l != r, "<": l < r, "<=": l <= r, ">": l > r, ">=": l >= r}[e[1]]
    if k == "in":
        for it in e[2]:
            if isinstance(it, tuple):
                if truth(("cmp", ">=", e[1], ("lit", it[0])), F, V) and truth(("cmp", "<=", e[1], ("lit", it[1])), F, V):
                    return True
            elif truth(("cmp", "==", e[1], ("lit", it)), F, V):
                return True
        return False
    if k == "and":
        return truth(e[1], F, V) and truth(e[2], F, V)
    if k == "or":
        return truth(e[1], F, V) or truth(e[2], F, V)
    if k == "not":
        return not truth(e[1], F, V)
    p, w = ev(e, F, V)
    return p != 0


def holds(st, F, V):
    """truth of a hard statement (soft statements contribute nothing)"""
    k = st[0]
    if k == "expr":
        return truth(st[1], F, V)
    if k == "if":
        if truth(st[1], F, V):
            return all(holds(s, F, V) for s in st[2])
        return all(holds(s, F, V) for s in (st[3] or []))
    if k == "implies":
        return (not truth(st[1], F, V)) or all(holds(s, F, V) for s in st[2])
    if k == "unique":
        vals = [(V[n] % (1 << F[n][0])) for n in st[1]]
        # pairwise != under R-EXPR: operands of one type here, so pattern inequality
        return len(set(vals)) == len(vals)
    if k in ("soft", "order"):
        return True          # ordering directives do not change the solution set
    raise ValueError(k)


def softs(stmts, guards=()):
    """-> [(guard_list, expr)] in visit order (later = higher priority)"""
    out = []
    for st in stmts:
        if st[0] == "soft":
            out.append((list(guards), st[1]))
        elif st[0] == "if":
            out += softs(st[2], guards + (("pos", st[1]),))
            if st[3]:
                out += softs(st[3], guards + (("neg", st[1]),))
        elif st[0] == "implies":
            out += softs(st[2], guards + (("pos", st[1]),))
    return out


def soft_holds(s, F, V):
    g, e = s
    for pol, c in g:
        t = truth(c, F, V)
        if (pol == "pos") != t:
            return True          # guard false: the soft constraint does not apply
    return truth(e, F, V)


def dom(w, s):
    return range(-(1 << (w - 1)), 1 << (w - 1)) if s else range(1 << w)


def solutions(F, rand, fixed, stmts):
    """all assignments of the rand fields (dict) satisfying every hard statement given the fixed values"""
    out = []
    names = list(rand)
    for combo in itertools.product(*[dom(*F[n]) for n in names]):
        V = dict(fixed)
        V.update(zip(names, combo))
        if all(holds(st, F, V) for st in stmts):
            out.append(V)
    return out


def greedy(sols, F, slist):
    """R-SOFT: softs in descending priority (= reverse visit order); keep one if some remaining solution honours it"""
    cur = sols
    kept = []
    for s in reversed(slist):
        nxt = [V for V in cur if soft_holds(s, F, V)]
        if nxt:
            cur = nxt
            kept.append(s)
    return cur, kept


# ---- classification of programs by the known defect classes they can trigger -----------------------------------
def _walk(e):
    yield e
    if e[0] in ("bin", "cmp"):
        yield from _walk(e[2])
        yield from _walk(e[3])
    elif e[0] == "in":
        yield from _walk(e[1])
    elif e[0] in ("and", "or"):
        yield from _walk(e[1])
        yield from _walk(e[2])
    elif e[0] == "not":
        yield from _walk(e[1])


def _exprs(stmts):
    for st in stmts:
        if st[0] in ("expr", "soft"):
            yield st[1]
        elif st[0] == "if":
            yield st[1]
            yield from _exprs(st[2])
            yield from _exprs(st[3] or [])
        elif st[0] == "implies":
            yield st[1]
            yield from _exprs(st[2])


def _can_be_negative(e, F):
    if e[0] == "lit":
        return e[1] < 0
    return signed(e, F)


def classify(P):
    """-> sorted list of tags: 'mixed-sign' (a comparison / membership whose operands differ in signedness while the signed
    side can be negative), 'nonrand-arith' (arithmetic over non-random operands only, evaluated outside the solver)"""
    F = P["F"]
    tags = set()
    for top in _exprs(P["stmts"]):
        for e in _walk(top):
            if e[0] == "cmp":
                l, r = e[2], e[3]
                if signed(l, F) != signed(r, F) and (_can_be_negative(l, F) or _can_be_negative(r, F)):
                    tags.add("mixed-sign")
            if e[0] == "in":
                sl = signed(e[1], F)
                if not sl and any((it[0] if isinstance(it, tuple) else it) < 0 for it in e[2]):
                    tags.add("mixed-sign")
            if e[0] == "bin":
                leaves = [x for x in _walk(e) if x[0] in ("f", "lit", "psel")]
                if all(x[0] == "lit" or (x[0] == "f" and x[1] in P["fixed"]) for x in leaves) and any(x[0] == "f" for x in leaves):
                    tags.add("nonrand-arith")
    return sorted(tags)
