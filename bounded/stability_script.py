"""Run by contracts/api_stability.py in fresh interpreters with different PYTHONHASHSEED values / disturbances.
Prints one JSON line: the value sequences produced for a fixed random-state seed."""
import sys
import os
import json
import io
import random
import contextlib

sys.path.insert(0, os.environ.get("PYVC_REPO_SRC", "/repo/src"))
mode = sys.argv[1]
import vsc
from enum import IntEnum
from vsc.model.rand_state import RandState


class E(IntEnum):
    A = 3
    B = 1
    C = 7


@vsc.randobj
class Item(object):
    def __init__(self):
        self.a = vsc.rand_bit_t(8)
        self.b = vsc.rand_int_t(6)
        self.c = vsc.rand_bit_t(4)
        self.d = vsc.rand_bit_t(4)
        self.e = vsc.rand_enum_t(E)
        self.l = vsc.rand_list_t(vsc.bit_t(5), 4)
        self.u1 = vsc.rand_bit_t(16)
        self.u2 = vsc.rand_int_t(12)
        # six fields in one rand set: more than the swizzler steers in one call
        self.g0 = vsc.rand_bit_t(7)
        self.g1 = vsc.rand_bit_t(7)
        self.g2 = vsc.rand_bit_t(7)
        self.g3 = vsc.rand_bit_t(7)
        self.g4 = vsc.rand_bit_t(7)
        self.g5 = vsc.rand_bit_t(7)

    @vsc.constraint
    def ab(self):
        self.a < 200
        self.b > -20
        vsc.soft(self.a > 100)
        vsc.soft(self.a < 50)
        vsc.solve_order(self.c, self.d)
        self.c < self.d
        vsc.dist(self.a, [vsc.weight(1, 10), vsc.weight((2, 150), 20), vsc.weight((151, 199), 5)])
        vsc.unique(self.l)
        with vsc.foreach(self.l, idx=True) as i:
            self.l[i] < 20
        self.g0 + self.g1 + self.g2 + self.g3 + self.g4 + self.g5 < 500


def noise():
    @vsc.randobj
    class Other(object):
        def __init__(self):
            self.x = vsc.rand_bit_t(9)
            self.y = vsc.rand_bit_t(9)

        @vsc.constraint
        def c(self):
            self.x < self.y
    o = Other()
    for _ in range(3):
        o.randomize()
    random.random()
    random.randint(0, 1000)
    junk = [object() for _ in range(1000)]
    return len(junk)


out = []
o = Item()
o.set_randstate(RandState.mkFromSeed(1234))
snap = None
buf = io.StringIO()
for k in range(8):
    if mode == "noise":
        noise()
    kw = {}
    if mode == "debug":
        kw = dict(debug=1)
    if mode == "sfd":
        kw = dict(solve_fail_debug=1)
    with contextlib.redirect_stdout(buf):
        if k % 3 == 2:
            with o.randomize_with(**kw) as it:
                it.b < 10
        else:
            o.randomize(**kw)
    if k == 3:
        snap = o.get_randstate()
    out.append([int(o.a), int(o.b), int(o.c), int(o.d), int(o.e), list(map(int, o.l)), int(o.u1), int(o.u2)] + [int(getattr(o, 'g%d' % j)) for j in range(6)])
# restore the snapshot taken after call 3 and replay calls 4..7; do it twice from the same RandState object
rep = []
for _ in range(2):
    o.set_randstate(snap)
    r = []
    for k in range(4, 8):
        with contextlib.redirect_stdout(buf):
            if k % 3 == 2:
                with o.randomize_with() as it:
                    it.b < 10
            else:
                o.randomize()
        r.append([int(o.a), int(o.b), int(o.c), int(o.d), int(o.e), list(map(int, o.l)), int(o.u1), int(o.u2)] + [int(getattr(o, 'g%d' % j)) for j in range(6)])
    rep.append(r)
# a state derived from (seed, string)
q = Item()
q.set_randstate(RandState.mkFromSeed(7, "top.env.agent0"))
named = []
for k in range(3):
    with contextlib.redirect_stdout(buf):
        q.randomize()
    named.append([int(q.a), int(q.b), int(q.u1)])
# default state: fixed by Python's global random seed
random.seed(99)
p = Item()
with contextlib.redirect_stdout(buf):
    p.randomize()
dflt = [int(p.a), int(p.u1)]
print(json.dumps({"seq": out, "replays": rep, "default": dflt, "named": named}))
sys.stdout.flush()
os._exit(0)
